#!/bin/bash
# confirms every seeded defect under /verif/seeded (see confirm_seed.sh) and stores the transcript next to it
for d in /verif/seeded/*/; do
  n=$(basename $d)
  /verif/tools/confirm_seed.sh $d > $d/confirm.log 2>&1
  echo "$n: $(grep -c 'FAIL' $d/confirm.log) FAIL lines; $(grep -A3 'WITHOUT change' $d/confirm.log | grep -c '^ok')" 
done
