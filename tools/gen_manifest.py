#!/usr/bin/env python3
"""Regenerate /verif/MANIFEST.json from contracts/properties.json and contracts/not_applicable.json."""
import json, subprocess
V = '/verif'
pm = json.load(open(f'{V}/contracts/properties.json'))
na = json.load(open(f'{V}/contracts/not_applicable.json'))
ids = [json.loads(l)['id'] for l in open(f'{V}/properties.jsonl')]
hooks = subprocess.run(['git', '-C', '/repo', 'log', '--format=%H %s'], capture_output=True, text=True).stdout.strip().split('\n')
hook_commits = [l.split()[0] for l in hooks if 'verif hooks' in l]
checks = []
for pid in ids:
    if pid not in pm:
        continue
    p = pm[pid]
    checks.append({
        "property_id": pid,
        "quick_cmd": f"/verif/bin/zv check --property {pid} --tier quick",
        "thorough_cmd": f"/verif/bin/zv check --property {pid} --tier thorough",
        "evidence_file": f"/verif/evidence/{pid}.json",
        "replay_cmd_template": "/verif/bin/zv replay {path}",
        "engine": "zv",
        "level_claimed": {"category": p.get("level", "proof"), "text": p["claim"], "design_ref": p.get("design_ref", "DESIGN.md section 8/" + pid)},
        "level_note": p.get("level_note", "assumed: " + ("; ".join(p.get("assumptions", [])) or "-") + ". not covered by any contract: " + ("; ".join(p.get("unverified", [])) or "-") + ". trusted: go/ssa translation, the zv VC generator and encodings, z3/cvc5 (no certificates), assumed dependency contracts (contracts/deps.spec); every contract is sequential (no interleavings, no crash instants); clauses listed as bounded are decided only for fixed (resolution, width) instances"),
        "technique": p.get("technique", "contract-based deductive verification: //@ contracts on the real functions, VCs generated over go/ssa, discharged by z3/cvc5"),
    })
m = {
    "version": 1,
    "setup_cmd": "cd /verif/engine && GOFLAGS=-mod=mod GOPROXY=off GOSUMDB=off GOTOOLCHAIN=local go build -o /verif/bin/zv .",
    "hooks": {
        "guard": "verif",
        "enable": "contract files /repo/<pkg>/zz_contracts_verif.go carry //go:build verif and contain only comments; zv parses them from the working tree (go build -tags verif compiles them as empty files)",
        "baseline_off_cmd": "cd /repo && GOFLAGS=-mod=mod go test -json -vet=off -count=1 -timeout 25m ./...",
        "source_commits": hook_commits,
        "add_only": True,
    },
    "engines": [{"name": "zv", "path": "/verif/engine", "serves_properties": [c["property_id"] for c in checks],
                 "kind_free_text": "home-made deductive verifier for Go: contracts as //@ comments keyed by function and loop ordinal, weakest-precondition style VC generation over go/ssa with calls replaced by contracts, obligations discharged by a z3 4.8 / z3 5.1 / cvc5 portfolio, counterexample replay via go test -overlay"}],
    "checks": checks,
    "not_applicable": [{"property_id": k, "reason": v} for k, v in na.items() if k not in pm],
    "notes": "See DESIGN.md. known_findings.txt lists repaired defects (fixed:) and recorded findings (finding:).",
}
missing = [i for i in ids if i not in pm and i not in na]
assert not missing, f"properties neither claimed nor not_applicable: {missing}"
json.dump(m, open(f'{V}/MANIFEST.json', 'w'), indent=1)
print("checks:", [c["property_id"] for c in checks], "n/a:", [x["property_id"] for x in m["not_applicable"]])
