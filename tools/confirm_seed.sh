#!/bin/bash
# usage: confirm_seed.sh <seed dir containing patch.diff, meta.json, demo test files> [--root]
# Confirms in a scratch worktree of /repo HEAD: patch applies, builds, package tests pass, demo fails with / passes without.
set -u
export GOFLAGS=-mod=mod GOPROXY=off GOSUMDB=off GOTOOLCHAIN=local
S=$(realpath "$1"); W=/tmp/confirm_$$
git -C /repo worktree add -q --detach $W HEAD || exit 2
trap 'git -C /repo worktree remove --force $W >/dev/null 2>&1; rm -f /tmp/confirm_run_$$.sh' EXIT
cd $W
git apply "$S/patch.diff" || { echo "CONFIRM: patch does not apply"; exit 1; }
go build ./... || { echo "CONFIRM: build fails"; exit 1; }
PKGS=$(python3 -c "
import json,sys
m=json.load(open('$S/meta.json'))
ds=set()
for f in m['files_changed']:
    d=f.rsplit('/',1)[0] if '/' in f else '.'
    ds.add('./'+d+'/' if d!='.' else '.')
print(' '.join(sorted(ds)))")
echo "CONFIRM: existing tests of $PKGS with change:"
go test -vet=off -count=1 -timeout 20m $PKGS 2>&1 | grep -v "^DEBUG\|^TRACE\|^ERROR\|^\s" | tail -5
python3 - "$S" /tmp/confirm_run_$$.sh <<'PY'
import json,sys,shutil,os
S=sys.argv[1]
m=json.load(open(S+'/meta.json'))
for f,d in m['demo']['files'].items():
    shutil.copy(os.path.join(S,f), os.path.join(d,f))
open(sys.argv[2],'w').write(m['demo']['run']+'\n')
PY
echo "CONFIRM: demo WITH change:"
bash /tmp/confirm_run_$$.sh 2>&1 | grep -v "^DEBUG\|^TRACE\|^ERROR" | grep "^--- \|^ok\|^FAIL\|^PASS" | head -8
git apply -R "$S/patch.diff"
echo "CONFIRM: demo WITHOUT change:"
bash /tmp/confirm_run_$$.sh 2>&1 | grep -v "^DEBUG\|^TRACE\|^ERROR" | grep "^--- \|^ok\|^FAIL\|^PASS" | head -8
