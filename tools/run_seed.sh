#!/bin/bash
# usage: run_seed.sh <seed dir> <property id> [tier]   — applies the seeded patch to /repo, runs the check, reverts.
S=$(realpath "$1"); P=$2; T=${3:-quick}
cd /repo && git diff --quiet || { echo "/repo has local changes"; exit 2; }
git -C /repo apply "$S/patch.diff" || { echo "run_seed: $S/patch.diff does not apply to /repo HEAD (rebase it)"; echo "rc=2"; exit 2; }
/verif/bin/zv check --property $P --tier $T; rc=$?
git -C /repo checkout -- .
echo "rc=$rc"
