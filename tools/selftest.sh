#!/bin/bash
# Must-fail corpus: every seeded defect with an expected catching property must make that check exit 1;
# the unchanged tree must make every check exit 0. Usage: tools/selftest.sh [seed ...]
cd /verif
seeds=${@:-$(python3 -c "import json;print(' '.join(k for k,v in json.load(open('seeded/EXPECTED.json')).items() if v))")}
fail=0
for s in $seeds; do
  prop=$(python3 -c "import json;print(json.load(open('seeded/EXPECTED.json'))['$s'])")
  out=$(tools/run_seed.sh seeded/$s $prop 2>&1 | tail -1)
  if [ "$out" == "rc=1" ]; then echo "selftest: $s caught by $prop"; else echo "selftest: $s NOT caught by $prop ($out)"; fail=1; fi
done
exit $fail
