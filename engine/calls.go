package main

// Calls: by contract, built-ins, modelled library functions, function values, defers.

import (
	"fmt"
	"go/token"
	"go/types"
	"strings"

	"golang.org/x/tools/go/ssa"
)

var noopPkgs = map[string]bool{
	"github.com/getlantern/golog":          true,
	"github.com/dustin/go-humanize":        true,
	"github.com/getlantern/mtime":          true,
	"log":                                  true,
	"github.com/getlantern/zenodb/metrics": true,
}

var purePkgs = map[string]bool{
	"fmt": true, "errors": true, "strings": true, "strconv": true, "bytes": true, "unicode": true, "math": true,
	"reflect": true, "context": true, "sync": true, "time": true, "unicode/utf8": true, "regexp": true, "runtime": true,
	"github.com/getlantern/errors": true, "path/filepath": true, "math/rand": true, "net/url": true,
	"hash": true, "io": true, "os": true, "io/ioutil": true, "crypto/sha256": true, "encoding/hex": true, "bufio": true, "github.com/getlantern/bytemap": true, "github.com/spaolacci/murmur3": true,
	"github.com/HdrHistogram/hdrhistogram-go": true, // histograms are private heap objects of the library: no effect on modelled state
}

func (tx *FnTx) setResult(v ssa.Value, sig *types.Signature, res []Term) {
	if v == nil {
		return
	}
	switch sig.Results().Len() {
	case 0:
	case 1:
		tx.define(v, res[0].S)
	default:
		tx.tuples[v] = res
	}
}

func (tx *FnTx) freshResults(prefix string, sig *types.Signature, st *State) []Term {
	var out []Term
	for i := 0; i < sig.Results().Len(); i++ {
		rt := sig.Results().At(i).Type()
		t := Term{S: tx.d.fresh(fmt.Sprintf("%s_r%d", prefix, i), tx.d.sortOf(rt)), Sort: tx.d.sortOf(rt), GT: rt}
		tx.assumeTyped(t, rt, st)
		out = append(out, t)
	}
	return out
}

// pureApp applies the uninterpreted function standing for a pure Go function.
func (tx *FnTx) pureApp(key string, heap bool, sig *types.Signature, args []Term, hv string) []Term {
	sorts := []string{}
	as := []string{}
	if heap {
		sorts = append(sorts, "Int")
		as = append(as, hv)
	}
	for _, a := range args {
		if a.Sort == "Nil" {
			a = Term{S: "0", Sort: "Int"}
		}
		sorts = append(sorts, a.Sort)
		as = append(as, a.S)
	}
	var out []Term
	for i := 0; i < sig.Results().Len(); i++ {
		rt := sig.Results().At(i).Type()
		name := fmt.Sprintf("pf_%s_%d", sanitize(key), i)
		tx.d.declFun(name, sorts, tx.d.sortOf(rt))
		out = append(out, Term{S: sapp(name, as...), Sort: tx.d.sortOf(rt), GT: rt})
	}
	return out
}

func calleeParamNames(callee *ssa.Function, c *FnContract, sig *types.Signature) []string {
	if c != nil && len(c.Params) > 0 {
		return c.Params
	}
	var names []string
	if callee != nil && len(callee.Params) > 0 {
		for _, p := range callee.Params {
			names = append(names, p.Name())
		}
		return names
	}
	if sig.Recv() != nil {
		n := sig.Recv().Name()
		if n == "" || n == "_" {
			n = "this"
		}
		names = append(names, n)
	}
	for i := 0; i < sig.Params().Len(); i++ {
		n := sig.Params().At(i).Name()
		if n == "" || n == "_" {
			n = fmt.Sprintf("arg%d", i)
		}
		names = append(names, n)
	}
	return names
}

func (tx *FnTx) callOrdinal(name string) int {
	k := tx.ncall[name]
	tx.ncall[name] = k + 1
	return k
}

func identsIn(e SExpr, out map[string]bool) {
	switch n := e.(type) {
	case *SIdent:
		out[n.Name] = true
	case *SUnary:
		identsIn(n.X, out)
	case *SBinary:
		identsIn(n.X, out)
		identsIn(n.Y, out)
	case *SCond:
		identsIn(n.C, out)
		identsIn(n.A, out)
		identsIn(n.B, out)
	case *SCall:
		for _, a := range n.Args {
			identsIn(a, out)
		}
	case *SMethod:
		identsIn(n.Recv, out)
		for _, a := range n.Args {
			identsIn(a, out)
		}
	case *SIndex:
		identsIn(n.X, out)
		identsIn(n.I, out)
	case *SSlice:
		identsIn(n.X, out)
		if n.Lo != nil {
			identsIn(n.Lo, out)
		}
		if n.Hi != nil {
			identsIn(n.Hi, out)
		}
	case *SField:
		identsIn(n.X, out)
	case *SQuant:
		if n.Lo != nil {
			identsIn(n.Lo, out)
			identsIn(n.Hi, out)
		}
		identsIn(n.Body, out)
	case *SOld:
		identsIn(n.X, out)
	case *SLet:
		identsIn(n.Val, out)
		identsIn(n.Body, out)
	}
}

// applyContract models a call through the callee's contract.
func (tx *FnTx) applyContract(c *FnContract, key string, names []string, args []Term, sig *types.Signature, calleePkg *types.Package, st *State, fvLocs map[string]*Loc, fvVals map[string]Term) ([]Term, *State) {
	c.Used = true
	ord := tx.callOrdinal(key)
	env := &SpecEnv{tx: tx, vars: map[string]Term{}, locs: map[string]*Loc{}, cur: st, old: st, pkg: calleePkg}
	for i, n := range names {
		if i < len(args) {
			env.vars[n] = args[i]
		}
	}
	for k, l := range fvLocs {
		env.locs[k] = l
	}
	for k, v := range fvVals {
		env.vars[k] = v
	}
	for _, l := range c.Lets {
		v, err := env.Tr(l.E)
		if err != nil {
			panic(specErr{fmt.Sprintf("call to %s: let %s: %v", key, l.Name, err)})
		}
		env.vars[l.Name] = v
	}
	for _, r := range c.Requires {
		s, err := env.TrBool(r.E)
		if err != nil {
			panic(specErr{fmt.Sprintf("call to %s: requires %s: %v", key, r.Label, err)})
		}
		tx.oblige("pre", fmt.Sprintf("%s@%d.%s", key, ord, r.Label), s, tx.curReach, "precondition of "+key+": "+r.Src)
		tx.assumeReach(s)
	}
	if tx.c != nil && tx.c.NoPanicOwn && !c.NoPanic && !c.Extern && !c.Iface {
		tx.note("assumed not to panic: " + key + " (called from " + tx.key + ")")
	} else if tx.c != nil && tx.c.NoPanic && !c.NoPanic && !c.Extern && !c.Iface {
		tx.oblige("safe", fmt.Sprintf("call@%s.%d", key, ord), "false", tx.curReach, "callee "+key+" is not under a nopanic contract")
	}
	post := st
	if !c.Pure {
		if c.ModAll || !c.HasMod && c.Extern && false {
			post = tx.havocAllP(st)
		} else {
			regs, err := tx.resolveMods(c.Modifies, env, false)
			if err != nil {
				panic(specErr{fmt.Sprintf("call to %s: modifies: %v", key, err)})
			}
			post = tx.havocRegions(st, regs)
			na := tx.d.fresh("alloc_c", "Int")
			tx.assume("(>= " + na + " " + st.alloc + ")")
			post.alloc = na
		}
	}
	var res []Term
	if c.Pure {
		res = tx.pureApp(key, c.PureHeap, sig, args, st.hv)
		for i, r := range res {
			tx.assumeTyped(r, sig.Results().At(i).Type(), post)
		}
	} else {
		res = tx.freshResults("call_"+sanitize(key), sig, post)
	}
	// ghost variables constrained by ghost_ensures are havocked first
	if len(c.GhostEns) > 0 {
		ids := map[string]bool{}
		for _, g := range c.GhostEns {
			identsIn(g.E, ids)
		}
		if post == st {
			post = st.clone()
		}
		for id := range ids {
			if g, ok := tx.cs.Ghosts[id]; ok {
				post.ghost[id] = Term{S: tx.d.fresh("g_"+id, g.Sort), Sort: g.Sort}
			}
		}
	}
	penv := env.child()
	penv.cur = post
	penv.old = st
	penv.allocOld = st.alloc
	for i, r := range res {
		penv.vars[fmt.Sprintf("result%d", i)] = r
		if n := sig.Results().At(i).Name(); n != "" && n != "_" {
			if _, clash := penv.vars[n]; !clash {
				penv.vars[n] = r
			}
		}
	}
	if len(res) == 1 {
		penv.vars["result"] = res[0]
	}
	for _, en := range append(append([]Clause{}, c.Ensures...), c.GhostEns...) {
		s, err := penv.TrBool(en.E)
		if err != nil {
			if strings.Contains(err.Error(), "unknown identifier") {
				// clause over the callee's local variables: checked in its body, not usable by callers
				tx.note("postcondition " + key + "#" + en.Label + " mentions callee locals: not assumed at call sites")
				continue
			}
			panic(specErr{fmt.Sprintf("call to %s: ensures %s: %v", key, en.Label, err)})
		}
		if c.Pure && !c.PureHeap && len(c.Requires) == 0 {
			// a fact about a pure function without precondition holds for every application: no reachability guard
			tx.assume(s)
		} else {
			tx.assumeReach(s)
		}
	}
	return res, post
}

// afterCall runs the "after" call assertions and applies result captures; returns the (possibly new) state.
func (tx *FnTx) afterCall(desc string, post, pre *State, res []Term) *State {
	tx.checkCallAsserts(desc, "after", post, pre, res)
	if tx.c == nil {
		return post
	}
	out := post
	for _, cp := range tx.c.Captures {
		if strings.Contains(desc, cp.Pattern) {
			if out == post {
				out = post.clone()
			}
			// captured(c) also works for calls without (that) result: it then only records that the call happened
			out.ghost["capset!"+cp.Name] = Term{S: "true", Sort: "Bool"}
			if cp.K < len(res) {
				out.ghost["cap!"+cp.Name] = Term{S: res[cp.K].S, Sort: res[cp.K].Sort, GT: res[cp.K].GT}
			}
		}
	}
	return out
}

func (tx *FnTx) checkCallAsserts(desc string, when string, st, pre *State, res []Term) {
	if tx.c == nil {
		return
	}
	callArgs := tx.curCallArgs

	for _, ca := range tx.c.CallAsserts {
		if ca.When != when || !strings.Contains(desc, ca.Pattern) {
			continue
		}
		// old(...) and fresh(...) in a call assertion refer to the function's entry state, as in postconditions
		env := tx.baseEnv(st, tx.entry)
		_ = pre
		lim := tx.curIdx
		if when == "after" {
			lim = tx.curIdx + 1
		}
		env.resolve = tx.resolverUpTo(tx.curBlock, nil, true, lim)
		env.preferLocals = true
		for i, r := range res {
			env.vars[fmt.Sprintf("callresult%d", i)] = r
		}
		for i, a := range callArgs {
			env.vars[fmt.Sprintf("callarg%d", i)] = a
		}
		s, err := env.TrBool(ca.Clause.E)
		if err != nil {
			if ca.InScope && strings.Contains(err.Error(), "unknown identifier") {
				// the clause mentions variables that are not in scope at this call site: it does not apply here
				tx.note("call assertion " + ca.Clause.Label + " skipped at a call of " + desc + " (" + err.Error() + ")")
				continue
			}
			panic(specErr{fmt.Sprintf("at call %s: %v", ca.Pattern, err)})
		}
		k := tx.callOrdinal("assert:" + ca.Clause.Label)
		tx.assertSites[ca.Clause.Label]++
		tx.oblige("assert", fmt.Sprintf("%s@%d", ca.Clause.Label, k), s, tx.curReach, when+" call "+desc+": "+ca.Clause.Src)
		// assert-then-assume: once proved (as its own obligation) the fact may be used by everything after it
		tx.assumeReach(s)
	}
}

func (tx *FnTx) call(x *ssa.Call, st *State) *State {
	return tx.callCommon(&x.Call, x, st)
}

// mustPanicFns: standard-library functions that panic instead of returning an error.
var mustPanicFns = map[string]bool{
	"regexp.MustCompile": true, "regexp.MustCompilePOSIX": true, "text/template.Must": true, "html/template.Must": true,
	"strings.Repeat": false,
}

func (tx *FnTx) callCommon(cc *ssa.CallCommon, v ssa.Value, st *State) *State {
	sig := cc.Signature()
	// 1. builtins
	if b, ok := cc.Value.(*ssa.Builtin); ok {
		return tx.builtin(b, cc, v, st)
	}
	args := []Term{}
	var desc string
	// 2. interface method
	if cc.IsInvoke() {
		recv := tx.val(cc.Value)
		args = append(args, recv)
		for _, a := range cc.Args {
			args = append(args, tx.val(a))
		}
		key := ifaceKey(cc.Value.Type(), cc.Method.Name())
		desc = key
		tx.curCallArgs = args
		tx.checkCallAsserts(desc, "before", st, st, nil)
		tx.safety("nil", "(not (= (i-typ "+recv.S+") 0))", "method call on non-nil interface "+cc.Value.Name())
		if c := tx.cs.Fns[key]; c != nil {
			names := c.Params
			if len(names) == 0 {
				names = []string{"this"}
				msig := cc.Method.Type().(*types.Signature)
				for i := 0; i < msig.Params().Len(); i++ {
					n := msig.Params().At(i).Name()
					if n == "" || n == "_" {
						n = fmt.Sprintf("arg%d", i)
					}
					names = append(names, n)
				}
			}
			res, post := tx.applyContract(c, key, names, args, sig, cc.Method.Pkg(), st, nil, nil)
			tx.setResult(v, sig, res)
			return tx.afterCall(desc, post, st, res)
		}
		if mp := cc.Method.Pkg(); mp != nil && (noopPkgs[mp.Path()] || purePkgs[mp.Path()]) {
			res := tx.freshResults("lib_"+sanitize(cc.Method.Name()), sig, st)
			tx.setResult(v, sig, res)
			tx.note("library call treated as effect-free with unconstrained result: " + mp.Path())
			return st
		}
		tx.note("default-havoc callee: " + key)
		post := tx.havocAllP(st)
		res := tx.freshResults("inv_"+cc.Method.Name(), sig, post)
		tx.setResult(v, sig, res)
		return tx.afterCall(desc, post, st, res)
	}
	for _, a := range cc.Args {
		args = append(args, tx.val(a))
	}
	callee := cc.StaticCallee()
	if callee == nil {
		return tx.callDynamic(cc, v, args, st)
	}
	key := fnKey(callee)
	desc = key
	tx.curCallArgs = args
	tx.checkCallAsserts(desc, "before", st, st, nil)
	// library functions whose documented behaviour is to panic on bad input: with a non-constant argument the call is an
	// explicit panic site (kind "panic") unless it is unreachable
	if mustPanicFns[key] && tx.c != nil && tx.c.NoPanic {
		allConst := true
		for _, a := range cc.Args {
			if _, ok := a.(*ssa.Const); !ok {
				allConst = false
			}
		}
		if !allConst {
			k := tx.nsafe["panic"]
			tx.nsafe["panic"] = k + 1
			tx.oblige("safe", fmt.Sprintf("panic@%d", k), "false", tx.curReach, key+" panics on invalid input and is called with a computed argument")
		}
	}
	// 3. modelled library functions
	if post, ok := tx.modelled(key, callee, cc, v, args, st); ok {
		return tx.afterCall(desc, post, st, nil)
	}
	// 4. contract
	if c := tx.cs.Fns[key]; c != nil {
		var pkg *types.Package
		if callee.Pkg != nil {
			pkg = callee.Pkg.Pkg
		} else if callee.Parent() != nil && callee.Parent().Pkg != nil {
			pkg = callee.Parent().Pkg.Pkg
		}
		names := calleeParamNames(callee, c, sig)
		fvLocs := map[string]*Loc{}
		fvVals := map[string]Term{}
		if mc, ok := cc.Value.(*ssa.MakeClosure); ok {
			for i, fv := range callee.FreeVars {
				b := mc.Bindings[i]
				if l := tx.locOfPointer(b, st); l != nil {
					fvLocs[fv.Name()] = l
				} else {
					fvVals[fv.Name()] = tx.val(b)
				}
			}
		}
		res, post := tx.applyContract(c, key, names, args, sig, pkg, st, fvLocs, fvVals)
		tx.setResult(v, sig, res)
		return tx.afterCall(desc, post, st, res)
	}
	// 5. defaults
	pkgPath := ""
	if callee.Pkg != nil {
		pkgPath = callee.Pkg.Pkg.Path()
	} else if callee.Object() != nil && callee.Object().Pkg() != nil {
		pkgPath = callee.Object().Pkg().Path()
	}
	if noopPkgs[pkgPath] || purePkgs[pkgPath] {
		res := tx.freshResults("lib_"+sanitize(callee.Name()), sig, st)
		if key == "fmt.Errorf" || key == "errors.New" || strings.HasPrefix(key, "github.com/getlantern/errors.New") || strings.HasPrefix(key, "github.com/getlantern/errors.Wrap") {
			tx.assume("(not (= (i-typ " + res[0].S + ") 0))")
		}
		tx.setResult(v, sig, res)
		tx.note("library call treated as effect-free with unconstrained result: " + pkgPath)
		return tx.afterCall(desc, st, st, res)
	}
	if tx.c != nil && tx.c.NoPanicOwn && strings.HasPrefix(pkgPath, modPath) {
		tx.note("assumed not to panic: " + key + " (called from " + tx.key + ")")
	} else if tx.c != nil && tx.c.NoPanic && strings.HasPrefix(pkgPath, modPath) {
		k := tx.callOrdinal("nocontract:" + key)
		tx.oblige("safe", fmt.Sprintf("call@%s.%d", key, k), "false", tx.curReach, "callee "+key+" has no contract (may panic)")
	}
	tx.note("default-havoc callee: " + key)
	post := tx.havocAllP(st)
	res := tx.freshResults("call_"+sanitize(callee.Name()), sig, post)
	tx.setResult(v, sig, res)
	return tx.afterCall(desc, post, st, res)
}

func (tx *FnTx) callbackFrame(name string) ([]ModItem, bool) {
	if tx.c == nil || tx.c.Callbacks == nil {
		return nil, false
	}
	items, ok := tx.c.Callbacks[name]
	return items, ok
}

// fnValName gives the source-level name of a called function value.
func fnValName(v ssa.Value) string {
	switch x := v.(type) {
	case *ssa.Parameter:
		return x.Name()
	case *ssa.FreeVar:
		return x.Name()
	case *ssa.UnOp:
		if x.Op == token.MUL {
			switch y := x.X.(type) {
			case *ssa.FreeVar:
				return y.Name()
			case *ssa.FieldAddr:
				pt := y.X.Type().Underlying().(*types.Pointer)
				return pt.Elem().Underlying().(*types.Struct).Field(y.Field).Name()
			case *ssa.Alloc:
				return y.Comment
			}
		}
	case *ssa.Field:
		return x.X.Type().Underlying().(*types.Struct).Field(x.Field).Name()
	case *ssa.Phi:
		return x.Comment
	}
	return v.Name()
}

func (tx *FnTx) callDynamic(cc *ssa.CallCommon, v ssa.Value, args []Term, st *State) *State {
	sig := cc.Signature()
	name := fnValName(cc.Value)
	tx.recordFnVal(name, cc.Value.Type())
	fv := tx.val(cc.Value)
	desc := "dyn:" + name
	tx.curCallArgs = args
	tx.checkCallAsserts(desc, "before", st, st, nil)
	tx.safety("nilfunc", "(not (= "+fv.S+" 0))", "call of non-nil function value "+name)
	if tx.c != nil && tx.c.NoReturn[name] {
		tx.note("calls of " + name + " in " + tx.key + " assumed never to return (trusted)")
		tx.assumeReach("false")
	}
	var post *State
	if tx.c != nil && tx.c.NoReturn[name] {
		// the path after the call is dead (assumed above): keep the pre-state so that joins with live paths see no effect
		post = st.clone()
	} else if items, ok := tx.callbackFrame(name); ok {
		env := tx.baseEnv(st, tx.entry)
		env.resolve = tx.resolverUpTo(tx.curBlock, nil, true, tx.curIdx)
		env.preferLocals = true
		for i, a := range args {
			env.vars[fmt.Sprintf("callarg%d", i)] = a
		}
		regs, err := tx.resolveMods(items, env, false)
		if err != nil {
			panic(specErr{fmt.Sprintf("callback %s modifies: %v", name, err)})
		}
		post = tx.havocRegions(st, regs)
		na := tx.d.fresh("alloc_cb", "Int")
		tx.assume("(>= " + na + " " + st.alloc + ")")
		post.alloc = na
		tx.note("call of function value " + name + " in " + tx.key + ": assumed to write only its declared callback frame (trusted)")
	} else {
		post = tx.havocAllP(st)
	}
	res := tx.freshResults("dyn_"+sanitize(name), sig, post)
	// ghost trace
	calls := tx.h.ghostTerm(st, "calls!"+name, "Int")
	post.ghost["calls!"+name] = Term{S: "(+ " + calls.S + " 1)", Sort: "Int"}
	for i, a := range args {
		post.ghost[fmt.Sprintf("lastarg!%s!%d", name, i)] = Term{S: a.S, Sort: a.Sort, GT: a.GT}
	}
	for i, r := range res {
		post.ghost[fmt.Sprintf("lastret!%s!%d", name, i)] = Term{S: r.S, Sort: r.Sort, GT: r.GT}
	}
	// per-object trace when the function value is a field of a struct object: callsOn(obj, "field")
	if u, ok := cc.Value.(*ssa.UnOp); ok && u.Op == token.MUL {
		if fa, ok := u.X.(*ssa.FieldAddr); ok {
			if _, isStatic := tx.locs[fa.X]; !isStatic {
				obj := tx.val(fa.X).S
				ca := tx.h.ghostTerm(st, "callsAt!"+name, "(Array Int Int)")
				post.ghost["callsAt!"+name] = Term{S: fmt.Sprintf("(store %s %s (+ (select %s %s) 1))", ca.S, obj, ca.S, obj), Sort: "(Array Int Int)"}
				for i, r := range res {
					key := fmt.Sprintf("lastretAt!%s!%d", name, i)
					srt := "(Array Int " + r.Sort + ")"
					g := tx.h.ghostTerm(st, key, srt)
					post.ghost[key] = Term{S: sapp("store", g.S, obj, r.S), Sort: srt}
				}
				for i, a := range args {
					key := fmt.Sprintf("lastargAt!%s!%d", name, i)
					srt := "(Array Int " + a.Sort + ")"
					g := tx.h.ghostTerm(st, key, srt)
					post.ghost[key] = Term{S: sapp("store", g.S, obj, a.S), Sort: srt}
				}
			}
		}
	}
	tx.setResult(v, sig, res)
	tx.note("call of function value " + name + " in " + tx.key + ": arbitrary heap effect, traced in ghost calls/lastarg/lastret")
	return tx.afterCall(desc, post, st, res)
}

func (tx *FnTx) runDefers(st *State) *State {
	cur := st
	for i := len(tx.deferred) - 1; i >= 0; i-- {
		d := tx.deferred[i]
		callee := d.Call.StaticCallee()
		if callee != nil {
			key := fnKey(callee)
			if strings.HasPrefix(key, "(*sync.") {
				continue
			}
		}
		cur = tx.callCommon(&d.Call, nil, cur)
	}
	return cur
}

// ---------- builtins ----------

func (tx *FnTx) builtin(b *ssa.Builtin, cc *ssa.CallCommon, v ssa.Value, st *State) *State {
	switch b.Name() {
	case "len":
		a := tx.val(cc.Args[0])
		switch a.Sort {
		case "Slice":
			tx.define(v, "(s-len "+a.S+")")
		case "Str":
			tx.define(v, "(strlen "+a.S+")")
		default:
			if at, ok := cc.Args[0].Type().Underlying().(*types.Array); ok {
				tx.define(v, fmt.Sprint(at.Len()))
			} else {
				t := tx.define(v, "")
				tx.assume("(>= " + t.S + " 0)")
				tx.note("len of map/chan unconstrained")
			}
		}
		return st
	case "cap":
		a := tx.val(cc.Args[0])
		if a.Sort == "Slice" {
			tx.define(v, "(s-cap "+a.S+")")
		} else {
			t := tx.define(v, "")
			tx.assume("(>= " + t.S + " 0)")
		}
		return st
	case "copy":
		return tx.copyBuiltin(cc, v, st)
	case "append":
		return tx.appendBuiltin(cc, v, st)
	case "delete":
		mt := cc.Args[0].Type().Underlying().(*types.Map)
		m := tx.val(cc.Args[0])
		k := tx.val(cc.Args[1])
		dom, _ := tx.mapComps(mt)
		n := st.clone()
		dh := tx.h.heapTerm(st, dom)
		n.heaps[dom.Name] = sapp("store", dh, m.S, sapp("store", sapp("select", dh, m.S), k.S, "false"))
		n.hv = tx.d.fresh("hv", "Int")
		return n
	case "recover":
		t := tx.define(v, "")
		_ = t
		return st
	case "print", "println", "close":
		return st
	case "min", "max":
		a := tx.val(cc.Args[0])
		bb := tx.val(cc.Args[1])
		op := "<="
		if b.Name() == "max" {
			op = ">="
		}
		tx.define(v, fmt.Sprintf("(ite (%s %s %s) %s %s)", op, a.S, bb.S, a.S, bb.S))
		return st
	case "ssa:wrapnilchk":
		tx.define(v, tx.val(cc.Args[0]).S)
		return st
	}
	tx.unsupportedf("builtin %s", b.Name())
	if v != nil {
		tx.define(v, "")
	}
	return st
}

func (tx *FnTx) copyBuiltin(cc *ssa.CallCommon, v ssa.Value, st *State) *State {
	dst := tx.val(cc.Args[0])
	src := tx.val(cc.Args[1])
	et := cc.Args[0].Type().Underlying().(*types.Slice).Elem()
	comp := tx.h.elemComp(et)
	H := tx.h.heapTerm(st, comp)
	A2 := tx.d.fresh("Acp_"+comp.Name, "(Array Int "+comp.VSort+")")
	H2 := sapp("store", H, "(s-obj "+dst.S+")", A2)
	n := tx.d.fresh("ncopy", "Int")
	tx.nq++
	p := fmt.Sprintf("p_c%d", tx.nq)
	var srcLen, srcVal string
	if src.Sort == "Str" {
		srcLen = "(strlen " + src.S + ")"
		tx.d.declFun("strbyte", []string{"Str", "Int"}, "Int")
		srcVal = fmt.Sprintf("(strbyte %s (- %s (s-off %s)))", src.S, p, dst.S)
	} else {
		srcLen = "(s-len " + src.S + ")"
		srcVal = fmt.Sprintf("(select (select %s (s-obj %s)) (+ (s-off %s) (- %s (s-off %s))))", H, src.S, src.S, p, dst.S)
	}
	tx.assume(fmt.Sprintf("(= %s (imin (s-len %s) %s))", n, dst.S, srcLen))
	inDst := sand("(<= (s-off "+dst.S+") "+p+")", "(< "+p+" (+ (s-off "+dst.S+") "+n+"))")
	tx.assume(fmt.Sprintf("(forall ((%s Int)) (! (= (select %s %s) (ite %s %s (select (select %s (s-obj %s)) %s))) :pattern ((select %s %s))))",
		p, A2, p, inDst, srcVal, H, dst.S, p, A2, p))
	ns := st.clone()
	ns.heaps[comp.Name] = H2
	ns.hv = tx.d.fresh("hv", "Int")
	if v != nil {
		tx.define(v, n)
	}
	return ns
}

func (tx *FnTx) appendBuiltin(cc *ssa.CallCommon, v ssa.Value, st *State) *State {
	s := tx.val(cc.Args[0])
	t := tx.val(cc.Args[1])
	et := cc.Args[0].Type().Underlying().(*types.Slice).Elem()
	comp := tx.h.elemComp(et)
	H := tx.h.heapTerm(st, comp)
	r := tx.define(v, "")
	tx.nq++
	p := fmt.Sprintf("p_a%d", tx.nq)
	var tLen string
	tval := func(idx string) string {
		if t.Sort == "Str" {
			tx.d.declFun("strbyte", []string{"Str", "Int"}, "Int")
			return "(strbyte " + t.S + " " + idx + ")"
		}
		return fmt.Sprintf("(select (select %s (s-obj %s)) (+ (s-off %s) %s))", H, t.S, t.S, idx)
	}
	if t.Sort == "Str" {
		tLen = "(strlen " + t.S + ")"
	} else {
		tLen = "(s-len " + t.S + ")"
	}
	ls := "(s-len " + s.S + ")"
	newLen := "(+ " + ls + " " + tLen + ")"
	inplace := "(<= " + newLen + " (s-cap " + s.S + "))"
	zero := tx.d.zero(et).S
	arrSort := "(Array Int " + comp.VSort + ")"
	// case 1: in place - the tail of s's backing array receives t
	A1 := tx.d.fresh("Aap_"+comp.Name, arrSort)
	tailStart := "(+ (s-off " + s.S + ") " + ls + ")"
	inTail := sand("(<= "+tailStart+" "+p+")", "(< "+p+" (+ "+tailStart+" "+tLen+"))")
	oldArr := "(select " + H + " (s-obj " + s.S + "))"
	tx.assume(fmt.Sprintf("(forall ((%s Int)) (! (= (select %s %s) (ite %s %s (select %s %s))) :pattern ((select %s %s))))",
		p, A1, p, inTail, tval("(- "+p+" "+tailStart+")"), oldArr, p, A1, p))
	// case 2: a fresh backing array: old elements, then t, then zeros
	A2 := tx.d.fresh("Aan_"+comp.Name, arrSort)
	newContent := fmt.Sprintf("(ite (and (<= 0 %s) (< %s %s)) (select %s (+ (s-off %s) %s)) (ite (and (<= %s %s) (< %s %s)) %s %s))",
		p, p, ls, oldArr, s.S, p, ls, p, p, newLen, tval("(- "+p+" "+ls+")"), zero)
	tx.assume(fmt.Sprintf("(forall ((%s Int)) (! (= (select %s %s) %s) :pattern ((select %s %s))))", p, A2, p, newContent, A2, p))
	newObj := tx.d.fresh("obj_"+v.Name(), "Int")
	tx.assume("(= " + newObj + " " + st.alloc + ")")
	capNew := tx.d.fresh("cap_"+v.Name(), "Int")
	tx.assume("(>= " + capNew + " " + newLen + ")")
	tx.assume(fmt.Sprintf("(= %s (ite %s (mk-slice (s-obj %s) (s-off %s) %s (s-cap %s)) (mk-slice %s 0 %s %s)))", r.S, inplace, s.S, s.S, newLen, s.S, newObj, newLen, capNew))
	ns := st.clone()
	ns.heaps[comp.Name] = fmt.Sprintf("(ite %s (store %s (s-obj %s) %s) (store %s %s %s))", inplace, H, s.S, A1, H, newObj, A2)
	ns.alloc = "(+ " + st.alloc + " 1)"
	ns.hv = tx.d.fresh("hv", "Int")
	return ns
}

// ---------- modelled library functions ----------

func (tx *FnTx) byteComp() *Comp { return tx.h.elemComp(types.Typ[types.Uint8]) }

func (tx *FnTx) modelled(key string, callee *ssa.Function, cc *ssa.CallCommon, v ssa.Value, args []Term, st *State) (*State, bool) {
	switch key {
	case "(encoding/binary.bigEndian).Uint64", "(encoding/binary.bigEndian).Uint32", "(encoding/binary.bigEndian).Uint16":
		n, fn := 8, "be64"
		if strings.HasSuffix(key, "32") {
			n, fn = 4, "be32"
		} else if strings.HasSuffix(key, "16") {
			n, fn = 2, "be16"
		}
		b := args[len(args)-1]
		tx.safety("index", fmt.Sprintf("(>= (s-len %s) %d)", b.S, n), fmt.Sprintf("binary read needs %d bytes", n))
		H := tx.h.heapTerm(st, tx.byteComp())
		t := tx.define(v, fmt.Sprintf("(%s (select %s (s-obj %s)) (s-off %s))", fn, H, b.S, b.S))
		// bytes are in 0..255
		for i := 0; i < n; i++ {
			by := fmt.Sprintf("(select (select %s (s-obj %s)) (+ (s-off %s) %d))", H, b.S, b.S, i)
			tx.assume(sand("(<= 0 "+by+")", "(<= "+by+" 255)"))
		}
		_ = t
		return st, true
	case "(encoding/binary.bigEndian).PutUint64", "(encoding/binary.bigEndian).PutUint32", "(encoding/binary.bigEndian).PutUint16":
		n, fn := 8, "be64"
		if strings.HasSuffix(key, "32") {
			n, fn = 4, "be32"
		} else if strings.HasSuffix(key, "16") {
			n, fn = 2, "be16"
		}
		b := args[len(args)-2]
		val := args[len(args)-1]
		tx.safety("index", fmt.Sprintf("(>= (s-len %s) %d)", b.S, n), fmt.Sprintf("binary write needs %d bytes", n))
		comp := tx.byteComp()
		H := tx.h.heapTerm(st, comp)
		arr := "(select " + H + " (s-obj " + b.S + "))"
		for i := 0; i < n; i++ {
			c := tx.d.fresh("pb", "Int")
			tx.assume(sand("(<= 0 "+c+")", "(<= "+c+" 255)"))
			arr = fmt.Sprintf("(store %s (+ (s-off %s) %d) %s)", arr, b.S, i, c)
		}
		ns := st.clone()
		ns.heaps[comp.Name] = "(store " + H + " (s-obj " + b.S + ") " + arr + ")"
		ns.hv = tx.d.fresh("hv", "Int")
		tx.assume(fmt.Sprintf("(= (%s %s (s-off %s)) %s)", fn, arr, b.S, val.S))
		return ns, true
	case "encoding/binary.Read":
		// binary.Read(r, order, data) with data = pointer to a fixed-size value: it writes *data and nothing else that is
		// modelled (the reader's own state is not); the error result is unconstrained
		if len(cc.Args) == 3 {
			if mi, ok := cc.Args[2].(*ssa.MakeInterface); ok {
				if pt, ok := mi.X.Type().Underlying().(*types.Pointer); ok {
					if _, isBasic := pt.Elem().Underlying().(*types.Basic); isBasic {
						nv := tx.d.fresh("bread", tx.d.sortOf(pt.Elem()))
						t := Term{S: nv, Sort: tx.d.sortOf(pt.Elem()), GT: pt.Elem()}
						tx.assumeTyped(t, pt.Elem(), st)
						ns := tx.store(mi.X, t, st)
						res := tx.freshResults("bread_err", cc.Signature(), ns)
						tx.setResult(v, cc.Signature(), res)
						tx.note("encoding/binary.Read modelled: writes only the value its data pointer refers to")
						return ns, true
					}
				}
			}
		}
		return st, false
	case "math.Floor", "math.Ceil":
		x := args[0]
		isCeil := key == "math.Ceil"
		q := tx.d.fresh("fl", "Int")
		if isCeil {
			tx.assume(fmt.Sprintf("(= %s (- (to_int (- %s))))", q, x.S))
		} else {
			tx.assume(fmt.Sprintf("(= %s (to_int %s))", q, x.S))
		}
		// division lemma when the argument is float64(a)/float64(b) of integers
		if bo, ok := cc.Args[0].(*ssa.BinOp); ok && bo.Op == token.QUO {
			ca, okA := bo.X.(*ssa.Convert)
			cb, okB := bo.Y.(*ssa.Convert)
			if okA && okB && tx.d.sortOf(ca.X.Type()) == "Int" && tx.d.sortOf(cb.X.Type()) == "Int" {
				a := tx.val(ca.X).S
				b := tx.val(cb.X).S
				if isCeil {
					tx.assume(simp("(> "+b+" 0)", sand("(>= (* "+q+" "+b+") "+a+")", "(< (- (* "+q+" "+b+") "+b+") "+a+")")))
				} else {
					tx.assume(simp("(> "+b+" 0)", sand("(<= (* "+q+" "+b+") "+a+")", "(< "+a+" (+ (* "+q+" "+b+") "+b+"))")))
				}
				tx.note("float64 division of integers followed by Floor/Ceil modelled as exact rational floor/ceil (inFloatRange assumption)")
			}
		}
		tx.define(v, "(to_real "+q+")")
		return st, true
	case "math.Float64bits":
		tx.d.declFun("f2b", []string{"Real"}, "Int")
		tx.d.declFun("b2f", []string{"Int"}, "Real")
		tx.d.add("ax:f2b", "(assert (forall ((x Real)) (! (and (= (b2f (f2b x)) x) (<= 0 (f2b x)) (<= (f2b x) 18446744073709551615)) :pattern ((f2b x)))))")
		tx.define(v, "(f2b "+args[0].S+")")
		return st, true
	case "math.Float64frombits":
		tx.d.declFun("f2b", []string{"Real"}, "Int")
		tx.d.declFun("b2f", []string{"Int"}, "Real")
		tx.d.add("ax:f2b", "(assert (forall ((x Real)) (! (and (= (b2f (f2b x)) x) (<= 0 (f2b x)) (<= (f2b x) 18446744073709551615)) :pattern ((f2b x)))))")
		tx.define(v, "(b2f "+args[0].S+")")
		return st, true
	case "sync/atomic.AddInt64", "sync/atomic.AddInt32":
		l := tx.locOfPointer(cc.Args[0], st)
		if l == nil {
			return nil, false
		}
		old := tx.h.read(st, l)
		nv := "(+ " + old.S + " " + args[1].S + ")"
		ns := tx.h.write(st, l, nv)
		tx.define(v, nv)
		return ns, true
	case "sync/atomic.LoadInt64", "sync/atomic.LoadInt32":
		l := tx.locOfPointer(cc.Args[0], st)
		if l == nil {
			return nil, false
		}
		tx.define(v, tx.h.read(st, l).S)
		return st, true
	case "sync/atomic.StoreInt64", "sync/atomic.StoreInt32":
		l := tx.locOfPointer(cc.Args[0], st)
		if l == nil {
			return nil, false
		}
		return tx.h.write(st, l, args[1].S), true
	case "sync/atomic.CompareAndSwapInt32", "sync/atomic.CompareAndSwapInt64":
		l := tx.locOfPointer(cc.Args[0], st)
		if l == nil {
			return nil, false
		}
		old := tx.h.read(st, l)
		ok := "(= " + old.S + " " + args[1].S + ")"
		ns := tx.h.write(st, l, "(ite "+ok+" "+args[2].S+" "+old.S+")")
		tx.define(v, ok)
		return ns, true
	}
	if strings.HasPrefix(key, "(*sync.") {
		// Lock/Unlock/RLock/RUnlock/Wait/Done/Add: no effect on modelled state
		if v != nil && cc.Signature().Results().Len() > 0 {
			tx.define(v, "")
		}
		return st, true
	}
	return nil, false
}
