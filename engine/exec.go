package main

// Instruction semantics.

import (
	"fmt"
	"go/token"
	"go/types"

	"golang.org/x/tools/go/ssa"
)

func (tx *FnTx) safety(kind string, cond string, src string) {
	if tx.c != nil && tx.c.NoPanic {
		k := tx.nsafe[kind]
		tx.nsafe[kind] = k + 1
		tx.oblige("safe", fmt.Sprintf("%s@%d", kind, k), cond, tx.curReach, src)
	}
	// execution continues only if no panic happened
	tx.assumeReach(cond)
}

func basicInfo(t types.Type) types.BasicInfo {
	if b, ok := t.Underlying().(*types.Basic); ok {
		return b.Info()
	}
	return 0
}

func unsignedMod(t types.Type) string {
	b, ok := t.Underlying().(*types.Basic)
	if !ok || b.Info()&types.IsUnsigned == 0 {
		return ""
	}
	switch b.Kind() {
	case types.Uint8:
		return "256"
	case types.Uint16:
		return "65536"
	case types.Uint32:
		return "4294967296"
	}
	return "18446744073709551616"
}

func intBits(t types.Type) int {
	b, ok := t.Underlying().(*types.Basic)
	if !ok {
		return 64
	}
	switch b.Kind() {
	case types.Int8, types.Uint8:
		return 8
	case types.Int16, types.Uint16:
		return 16
	case types.Int32, types.Uint32:
		return 32
	}
	return 64
}

func (tx *FnTx) exec(in ssa.Instruction, st *State) *State {
	switch x := in.(type) {
	case *ssa.DebugRef:
		return st
	case *ssa.Alloc:
		et := x.Type().Underlying().(*types.Pointer).Elem()
		if tx.localAlloc[x] {
			n := st.clone()
			z := tx.d.zero(et)
			n.locals[x] = Term{S: z.S, Sort: tx.d.sortOf(et), GT: et}
			return n
		}
		ref := tx.define(x, st.alloc)
		n := st.clone()
		n.alloc = "(+ " + ref.S + " 1)"
		if at, ok := et.Underlying().(*types.Array); ok {
			// arrays behind escaping pointers live in the element heap (so that slicing them aliases correctly)
			comp := tx.h.elemComp(at.Elem())
			ht := tx.h.heapTerm(st, comp)
			n.heaps[comp.Name] = sapp("store", ht, ref.S, tx.d.constArray(comp.VSort, tx.d.zero(at.Elem()).S))
			return n
		}
		// zero-initialise
		return tx.store(x, tx.d.zero(et), n)
	case *ssa.BinOp:
		tx.binop(x, st)
		return st
	case *ssa.UnOp:
		return tx.unop(x, st)
	case *ssa.Phi:
		return st
	case *ssa.Store:
		v := tx.val(x.Val)
		return tx.store(x.Addr, v, st)
	case *ssa.FieldAddr:
		tx.fieldAddr(x, st)
		return st
	case *ssa.Field:
		v := tx.val(x.X)
		stt := x.X.Type().Underlying().(*types.Struct)
		sname := tx.d.sortOf(x.X.Type())
		tx.define(x, sapp(tx.d.fieldSel(sname, stt, x.Field), v.S))
		return st
	case *ssa.IndexAddr:
		tx.indexAddr(x, st)
		return st
	case *ssa.Index:
		v := tx.val(x.X)
		i := tx.val(x.Index)
		switch u := x.X.Type().Underlying().(type) {
		case *types.Array:
			tx.safety("index", sand("(<= 0 "+i.S+")", fmt.Sprintf("(< %s %d)", i.S, u.Len())), "array index in range")
			tx.define(x, sapp("select", v.S, i.S))
		default:
			// string indexing
			tx.safety("index", sand("(<= 0 "+i.S+")", "(< "+i.S+" (strlen "+v.S+"))"), "string index in range")
			tx.d.declFun("strbyte", []string{"Str", "Int"}, "Int")
			t := tx.define(x, sapp("strbyte", v.S, i.S))
			tx.assume(sand("(<= 0 "+t.S+")", "(<= "+t.S+" 255)"))
		}
		return st
	case *ssa.Slice:
		return tx.sliceOp(x, st)
	case *ssa.MakeSlice:
		l := tx.val(x.Len)
		c := tx.val(x.Cap)
		tx.safety("makeslice", sand("(<= 0 "+l.S+")", "(<= "+l.S+" "+c.S+")"), "make: 0 <= len <= cap")
		et := x.Type().Underlying().(*types.Slice).Elem()
		obj := tx.d.fresh("obj_"+x.Name(), "Int")
		tx.assume("(= " + obj + " " + st.alloc + ")")
		n := st.clone()
		n.alloc = "(+ " + obj + " 1)"
		comp := tx.h.elemComp(et)
		ht := tx.h.heapTerm(st, comp)
		zero := tx.d.constArray(comp.VSort, tx.d.zero(et).S)
		n.heaps[comp.Name] = sapp("store", ht, obj, zero)
		tx.define(x, fmt.Sprintf("(mk-slice %s 0 %s %s)", obj, l.S, c.S))
		return n
	case *ssa.MakeInterface:
		v := tx.val(x.X)
		tx.define(x, tx.boxIface(v, x.X.Type()))
		return st
	case *ssa.ChangeInterface:
		tx.define(x, tx.val(x.X).S)
		return st
	case *ssa.ChangeType:
		v := tx.val(x.X)
		t := tx.define(x, v.S)
		_ = t
		if l, ok := tx.locs[x.X]; ok {
			tx.locs[x] = l
		}
		return st
	case *ssa.Convert:
		if n := tx.convertAlloc(x, st); n != nil {
			return n
		}
		tx.convert(x, st)
		return st
	case *ssa.TypeAssert:
		tx.typeAssert(x, st)
		return st
	case *ssa.Extract:
		tup, ok := tx.tuples[x.Tuple]
		if !ok || x.Index >= len(tup) {
			tx.unsupportedf("extract from unknown tuple %s", x.Tuple.Name())
			tx.define(x, "")
			return st
		}
		tx.define(x, tup[x.Index].S)
		if l, ok := tx.locs[x.Tuple]; ok {
			_ = l
		}
		return st
	case *ssa.MakeClosure:
		ref := tx.define(x, st.alloc)
		n := st.clone()
		n.alloc = "(+ " + ref.S + " 1)"
		return n
	case *ssa.Call:
		return tx.call(x, st)
	case *ssa.Defer:
		tx.deferred = append(tx.deferred, x)
		return st
	case *ssa.RunDefers:
		return tx.runDefers(st)
	case *ssa.Go:
		tx.note("goroutine started in " + tx.key + ": not followed; all heap state unknown afterwards")
		return tx.havocAllP(st)
	case *ssa.Jump, *ssa.If:
		return st
	case *ssa.Return:
		res := []Term{}
		for _, r := range x.Results {
			res = append(res, tx.val(r))
		}
		tx.doReturn(res, st)
		return nil
	case *ssa.Panic:
		if tx.c != nil && tx.c.NoPanic {
			k := tx.nsafe["panic"]
			tx.nsafe["panic"] = k + 1
			tx.oblige("safe", fmt.Sprintf("panic@%d", k), "false", tx.curReach, "explicit panic is unreachable")
		}
		return nil
	case *ssa.MakeMap:
		ref := tx.define(x, st.alloc)
		n := st.clone()
		n.alloc = "(+ " + ref.S + " 1)"
		mt := x.Type().Underlying().(*types.Map)
		dom, _ := tx.mapComps(mt)
		ht := tx.h.heapTerm(n, dom)
		n.heaps[dom.Name] = sapp("store", ht, ref.S, fmt.Sprintf("((as const (Array %s Bool)) false)", tx.d.sortOf(mt.Key())))
		return n
	case *ssa.MapUpdate:
		return tx.mapUpdate(x, st)
	case *ssa.Lookup:
		tx.lookup(x, st)
		return st
	case *ssa.Range:
		tx.define(x, "")
		if mt, ok := x.X.Type().Underlying().(*types.Map); ok {
			// ghost set of the keys already produced by this iteration
			n := st.clone()
			srt := "(Array " + tx.d.sortOf(mt.Key()) + " Bool)"
			n.ghost["visited!"+x.Name()] = Term{S: "((as const " + srt + ") false)", Sort: srt}
			return n
		}
		return st
	case *ssa.Next:
		return tx.next(x, st)
	case *ssa.Send:
		// a send has no effect on modelled state, but contracts may constrain what is handed over:
		// `at call send:<channel name> assert ...` with callarg0 = the value sent
		tx.curCallArgs = []Term{tx.val(x.X)}
		tx.checkCallAsserts("send:"+fnValName(x.Chan), "before", st, st, nil)
		tx.note("channel send in " + tx.key + ": no effect on modelled state")
		return st
	case *ssa.MakeChan:
		ref := tx.define(x, st.alloc)
		n := st.clone()
		n.alloc = "(+ " + ref.S + " 1)"
		return n
	case *ssa.Select:
		// nondeterministic choice; received values are unconstrained
		idx := tx.d.fresh("sel_idx", "Int")
		tup := []Term{{S: idx, Sort: "Int"}, {S: tx.d.fresh("sel_ok", "Bool"), Sort: "Bool"}}
		for _, s := range x.States {
			if s.Dir == types.RecvOnly {
				et := s.Chan.Type().Underlying().(*types.Chan).Elem()
				v := Term{S: tx.d.fresh("sel_recv", tx.d.sortOf(et)), Sort: tx.d.sortOf(et), GT: et}
				tx.assumeTyped(v, et, st)
				tup = append(tup, v)
			}
		}
		lo := "0"
		if !x.Blocking {
			lo = "(- 1)"
		}
		tx.assume(sand("(<= "+lo+" "+idx+")", fmt.Sprintf("(< %s %d)", idx, len(x.States))))
		tx.tuples[x] = tup
		tx.note("select in " + tx.key + ": modelled as nondeterministic choice")
		return st
	case *ssa.SliceToArrayPointer, *ssa.MultiConvert:
		tx.unsupportedf("instruction %T", in)
		if v, ok := in.(ssa.Value); ok {
			tx.define(v, "")
		}
		return st
	}
	tx.unsupportedf("instruction %T", in)
	if v, ok := in.(ssa.Value); ok {
		tx.define(v, "")
	}
	return st
}

func (tx *FnTx) boxIface(v Term, t types.Type) string {
	if _, isIface := t.Underlying().(*types.Interface); isIface {
		return v.S
	}
	id := tx.d.typeID(t)
	var payload string
	if _, isPtr := t.Underlying().(*types.Pointer); isPtr && v.Sort == "Int" {
		payload = v.S
	} else {
		box, _ := tx.d.boxDecl(v.Sort)
		payload = "(" + box + " " + v.S + ")"
	}
	return fmt.Sprintf("(mk-iface %d %s)", id, payload)
}

func (tx *FnTx) unboxIface(v Term, t types.Type) string {
	srt := tx.d.sortOf(t)
	if srt == "Iface" {
		return v.S
	}
	if _, isPtr := t.Underlying().(*types.Pointer); isPtr && srt == "Int" {
		return "(i-val " + v.S + ")"
	}
	_, un := tx.d.boxDecl(srt)
	return "(" + un + " (i-val " + v.S + "))"
}

func (tx *FnTx) typeAssert(x *ssa.TypeAssert, st *State) {
	v := tx.val(x.X)
	at := x.AssertedType
	var okCond, res string
	if _, isIface := at.Underlying().(*types.Interface); isIface {
		// interface-to-interface: succeeds iff non-nil and dynamic type implements it (unknown statically)
		implName := "implements_" + sanitize(shortType(at))
		tx.d.declFun(implName, []string{"Int"}, "Bool")
		okCond = sand("(not (= (i-typ "+v.S+") 0))", "("+implName+" (i-typ "+v.S+"))")
		if it, ok := at.Underlying().(*types.Interface); ok && it.NumMethods() == 0 {
			okCond = "(not (= (i-typ " + v.S + ") 0))"
		}
		res = v.S
	} else {
		id := tx.d.typeID(at)
		okCond = fmt.Sprintf("(= (i-typ %s) %d)", v.S, id)
		res = tx.unboxIface(v, at)
	}
	if x.CommaOk {
		okc := tx.d.fresh(x.Name()+"_ok", "Bool")
		tx.assume("(= " + okc + " " + okCond + ")")
		rsort := tx.d.sortOf(at)
		rv := tx.d.fresh(x.Name()+"_v", rsort)
		tx.assume(fmt.Sprintf("(= %s (ite %s %s %s))", rv, okc, res, tx.d.zero(at).S))
		rt := Term{S: rv, Sort: rsort, GT: at}
		tx.assumeTyped(rt, at, st)
		tx.tuples[x] = []Term{rt, {S: okc, Sort: "Bool"}}
		return
	}
	tx.safety("assert", okCond, "type assertion "+x.X.Name()+".("+shortType(at)+") succeeds")
	t := tx.define(x, res)
	tx.assumeTyped(t, at, st)
}

func (tx *FnTx) fieldAddr(x *ssa.FieldAddr, st *State) {
	pt := x.X.Type().Underlying().(*types.Pointer)
	stt := pt.Elem().Underlying().(*types.Struct)
	ft := stt.Field(x.Field).Type()
	if l := tx.locOfPointer(x.X, st); l != nil {
		nl := *l
		nl.Path = append(append([]PathEl{}, l.Path...), PathEl{Field: x.Field, SName: tx.d.sortOf(pt.Elem()), ST: stt})
		nl.T = ft
		tx.locs[x] = &nl
		return
	}
	ref := tx.val(x.X)
	tx.safety("nil", "(not (= "+ref.S+" 0))", "dereference of "+x.X.Name()+" (non-nil)")
	tx.locs[x] = &Loc{Kind: locHeap, Comp: tx.h.fieldComp(pt.Elem(), x.Field), Ref: ref.S, T: ft}
}

func (tx *FnTx) indexAddr(x *ssa.IndexAddr, st *State) {
	i := tx.val(x.Index)
	switch u := x.X.Type().Underlying().(type) {
	case *types.Slice:
		s := tx.val(x.X)
		tx.safety("index", sand("(<= 0 "+i.S+")", "(< "+i.S+" (s-len "+s.S+"))"), "index "+x.Index.Name()+" within len("+x.X.Name()+")")
		tx.locs[x] = &Loc{Kind: locHeap, Comp: tx.h.elemComp(u.Elem()), Ref: "(s-obj " + s.S + ")", Idx: "(+ (s-off " + s.S + ") " + i.S + ")", T: u.Elem()}
	case *types.Pointer:
		at := u.Elem().Underlying().(*types.Array)
		tx.safety("index", sand("(<= 0 "+i.S+")", fmt.Sprintf("(< %s %d)", i.S, at.Len())), "array index in range")
		var l *Loc
		if _, isStatic := tx.locs[x.X]; isStatic {
			l = tx.locs[x.X]
		} else if a, ok := x.X.(*ssa.Alloc); ok && tx.localAlloc[a] {
			l = tx.locOfPointer(x.X, st)
		}
		if l == nil {
			ref := tx.val(x.X)
			tx.locs[x] = &Loc{Kind: locHeap, Comp: tx.h.elemComp(at.Elem()), Ref: ref.S, Idx: i.S, T: at.Elem()}
			return
		}
		nl := *l
		nl.Path = append(append([]PathEl{}, l.Path...), PathEl{IsIndex: true, Index: i.S})
		nl.T = at.Elem()
		tx.locs[x] = &nl
	}
}

func (tx *FnTx) sliceOp(x *ssa.Slice, st *State) *State {
	lo := "0"
	if x.Low != nil {
		lo = tx.val(x.Low).S
	}
	switch u := x.X.Type().Underlying().(type) {
	case *types.Slice:
		s := tx.val(x.X)
		hi := "(s-len " + s.S + ")"
		if x.High != nil {
			hi = tx.val(x.High).S
		}
		mx := "(s-cap " + s.S + ")"
		if x.Max != nil {
			mx = tx.val(x.Max).S
			tx.safety("slice", sand("(<= "+hi+" "+mx+")", "(<= "+mx+" (s-cap "+s.S+"))"), "slice max within capacity")
		}
		tx.safety("slice", sand("(<= 0 "+lo+")", "(<= "+lo+" "+hi+")", "(<= "+hi+" (s-cap "+s.S+"))"), "slice bounds of "+x.X.Name()+" in range")
		tx.define(x, fmt.Sprintf("(mk-slice (s-obj %s) (+ (s-off %s) %s) (- %s %s) (- %s %s))", s.S, s.S, lo, hi, lo, mx, lo))
	case *types.Basic: // string
		s := tx.val(x.X)
		hi := "(strlen " + s.S + ")"
		if x.High != nil {
			hi = tx.val(x.High).S
		}
		tx.safety("slice", sand("(<= 0 "+lo+")", "(<= "+lo+" "+hi+")", "(<= "+hi+" (strlen "+s.S+"))"), "substring bounds of "+x.X.Name()+" in range")
		tx.d.declFun("substr", []string{"Str", "Int", "Int"}, "Str")
		t := tx.define(x, sapp("substr", s.S, lo, hi))
		tx.assume("(= (strlen " + t.S + ") (- " + hi + " " + lo + "))")
	case *types.Pointer:
		at := u.Elem().Underlying().(*types.Array)
		if _, isStatic := tx.locs[x.X]; isStatic {
			tx.unsupportedf("slicing an array inside another object in %s", tx.key)
			t := tx.define(x, "")
			tx.assumeTyped(t, x.Type(), st)
			break
		}
		ref := tx.val(x.X)
		hi := fmt.Sprint(at.Len())
		if x.High != nil {
			hi = tx.val(x.High).S
		}
		tx.safety("slice", sand("(<= 0 "+lo+")", "(<= "+lo+" "+hi+")", fmt.Sprintf("(<= %s %d)", hi, at.Len())), "slice bounds of array in range")
		tx.define(x, fmt.Sprintf("(mk-slice %s %s (- %s %s) (- %d %s))", ref.S, lo, hi, lo, at.Len(), lo))
	}
	return st
}

func (tx *FnTx) binop(x *ssa.BinOp, st *State) {
	a := tx.val(x.X)
	b := tx.val(x.Y)
	t := x.X.Type()
	info := basicInfo(t)
	var s string
	switch x.Op {
	case token.ADD, token.SUB, token.MUL:
		op := map[token.Token]string{token.ADD: "+", token.SUB: "-", token.MUL: "*"}[x.Op]
		if a.Sort == "Str" {
			s = sapp("strcat", a.S, b.S)
			break
		}
		b = tx.coerce(b, a.Sort)
		s = sapp(op, a.S, b.S)
		if m := unsignedMod(t); m != "" {
			s = "(mod " + s + " " + m + ")"
		} else if info&types.IsInteger != 0 {
			tx.note("signed integer arithmetic treated as mathematical (no wrap-around)")
		}
	case token.QUO:
		if a.Sort == "Real" {
			s = sapp("/", a.S, tx.coerce(b, "Real").S)
			break
		}
		tx.safety("div", "(not (= "+b.S+" 0))", "division by "+x.Y.Name()+" (non-zero)")
		s = sapp("tdiv", a.S, b.S)
		if _, isConst := x.Y.(*ssa.Const); !isConst {
			// sound lemma instance for division by a symbolic divisor (helps the nonlinear solvers)
			q := tx.define(x, s)
			tx.assume(simp(sand("(> "+b.S+" 0)", "(>= "+a.S+" 0)"), sand("(>= "+q.S+" 0)", "(<= (* "+q.S+" "+b.S+") "+a.S+")", "(< "+a.S+" (+ (* "+q.S+" "+b.S+") "+b.S+"))")))
			tx.assume(simp(sand("(> "+b.S+" 0)", "(< "+a.S+" 0)"), sand("(<= "+q.S+" 0)", "(>= (* "+q.S+" "+b.S+") "+a.S+")", "(> "+a.S+" (- (* "+q.S+" "+b.S+") "+b.S+"))")))
			return
		}
	case token.REM:
		tx.safety("div", "(not (= "+b.S+" 0))", "modulo by "+x.Y.Name()+" (non-zero)")
		s = sapp("tmod", a.S, b.S)
	case token.EQL, token.NEQ:
		switch {
		case a.Sort == "Slice":
			// only comparison with nil is legal
			other := a
			if c, ok := x.X.(*ssa.Const); ok && c.Value == nil {
				other = b
			}
			s = "(= (s-obj " + other.S + ") 0)"
		default:
			b = tx.coerce(b, a.Sort)
			s = sapp("=", a.S, b.S)
			if a.Sort == "Str" && (a.S == "str_empty") != (b.S == "str_empty") {
				// the empty string is the only string of length 0
				o := a.S
				if o == "str_empty" {
					o = b.S
				}
				tx.assume("(and (>= (strlen " + o + ") 0) (= (= " + o + " str_empty) (= (strlen " + o + ") 0)))")
			}
		}
		if x.Op == token.NEQ {
			s = snot(s)
		}
	case token.LSS, token.LEQ, token.GTR, token.GEQ:
		op := map[token.Token]string{token.LSS: "<", token.LEQ: "<=", token.GTR: ">", token.GEQ: ">="}[x.Op]
		if a.Sort == "Str" {
			tx.d.declFun("strlt", []string{"Str", "Str"}, "Bool")
			switch x.Op {
			case token.LSS:
				s = sapp("strlt", a.S, b.S)
			case token.GTR:
				s = sapp("strlt", b.S, a.S)
			case token.LEQ:
				s = snot(sapp("strlt", b.S, a.S))
			default:
				s = snot(sapp("strlt", a.S, b.S))
			}
			break
		}
		s = sapp(op, a.S, tx.coerce(b, a.Sort).S)
	case token.LAND, token.AND:
		if a.Sort == "Bool" {
			s = sand(a.S, b.S)
		}
	case token.LOR, token.OR:
		if a.Sort == "Bool" {
			s = sor(a.S, b.S)
		}
	}
	if s == "" {
		// bit operations etc.: uninterpreted but deterministic
		fn := "bitop_" + sanitize(x.Op.String())
		switch x.Op {
		case token.AND:
			fn = "bitop_and"
		case token.OR:
			fn = "bitop_or"
		case token.XOR:
			fn = "bitop_xor"
		case token.SHL:
			fn = "bitop_shl"
		case token.SHR:
			fn = "bitop_shr"
		case token.AND_NOT:
			fn = "bitop_andnot"
		}
		tx.d.declFun(fn, []string{a.Sort, b.Sort}, tx.d.sortOf(x.Type()))
		s = sapp(fn, a.S, b.S)
		tx.note("bit operation " + x.Op.String() + " treated as uninterpreted")
		r := tx.define(x, s)
		tx.assumeTyped(r, x.Type(), st)
		return
	}
	tx.define(x, s)
}

func (tx *FnTx) unop(x *ssa.UnOp, st *State) *State {
	switch x.Op {
	case token.MUL:
		v := tx.load(x.X, st)
		t := tx.define(x, v.S)
		bound := st.alloc
		if l := tx.locOfPointer(x.X, st); l != nil && l.Kind == locHeap {
			// a component not written since its heap epoch began only holds objects older than that epoch
			bound = tx.h.loadBound(st, l.Comp)
		}
		if inv := tx.typeInv(t, x.Type(), bound, 0); inv != "true" {
			tx.assume(inv)
		}
		return st
	case token.NOT:
		tx.define(x, snot(tx.val(x.X).S))
	case token.SUB:
		tx.define(x, "(- "+tx.val(x.X).S+")")
	case token.ARROW:
		et := x.X.Type().Underlying().(*types.Chan).Elem()
		if x.CommaOk {
			v := Term{S: tx.d.fresh("recv", tx.d.sortOf(et)), Sort: tx.d.sortOf(et), GT: et}
			tx.assumeTyped(v, et, st)
			tx.tuples[x] = []Term{v, {S: tx.d.fresh("recv_ok", "Bool"), Sort: "Bool"}}
		} else {
			t := tx.define(x, "")
			tx.assumeTyped(t, et, st)
		}
		tx.note("channel receive in " + tx.key + ": value unconstrained")
	default:
		tx.d.declFun("bitop_not", []string{"Int"}, "Int")
		tx.define(x, sapp("bitop_not", tx.val(x.X).S))
	}
	return st
}

// convertAlloc: string -> []byte allocates: the result is a fresh object of the string's length (content: the string's
// bytes, uninterpreted). Returns nil for every other conversion.
func (tx *FnTx) convertAlloc(x *ssa.Convert, st *State) *State {
	if tx.d.sortOf(x.X.Type()) != "Str" || tx.d.sortOf(x.Type()) != "Slice" {
		return nil
	}
	sl, ok := x.Type().Underlying().(*types.Slice)
	if !ok {
		return nil
	}
	if b, ok := sl.Elem().Underlying().(*types.Basic); !ok || b.Kind() != types.Uint8 {
		return nil
	}
	v := tx.val(x.X)
	obj := tx.d.fresh("obj_"+x.Name(), "Int")
	tx.assume("(= " + obj + " " + st.alloc + ")")
	n := st.clone()
	n.alloc = "(+ " + obj + " 1)"
	comp := tx.h.elemComp(sl.Elem())
	ht := tx.h.heapTerm(st, comp)
	tx.d.declFun("strbytes", []string{"Str"}, "(Array Int Int)")
	n.heaps[comp.Name] = sapp("store", ht, obj, sapp("strbytes", v.S))
	tx.assume("(>= (strlen " + v.S + ") 0)")
	tx.define(x, fmt.Sprintf("(mk-slice %s 0 (strlen %s) (strlen %s))", obj, v.S, v.S))
	tx.note("string->[]byte conversion: fresh slice of the string's length, content uninterpreted")
	return n
}

func (tx *FnTx) convert(x *ssa.Convert, st *State) {
	v := tx.val(x.X)
	from := x.X.Type()
	to := x.Type()
	fs := tx.d.sortOf(from)
	ts := tx.d.sortOf(to)
	switch {
	case fs == "Int" && ts == "Int":
		fi, ti := basicInfo(from), basicInfo(to)
		if fi&types.IsInteger == 0 || ti&types.IsInteger == 0 {
			tx.define(x, v.S) // unsafe.Pointer etc.
			return
		}
		fu, tu := fi&types.IsUnsigned != 0, ti&types.IsUnsigned != 0
		fb, tb := intBits(from), intBits(to)
		switch {
		case tu:
			if fu && fb <= tb {
				tx.define(x, v.S)
			} else {
				tx.define(x, "(mod "+v.S+" "+unsignedMod(to)+")")
			}
		case fu && !tu:
			if fb < tb {
				tx.define(x, v.S)
			} else if tb == 64 {
				tx.define(x, "(i64of "+v.S+")")
			} else {
				tx.note("narrowing conversion treated as mathematical")
				tx.define(x, v.S)
			}
		default: // signed -> signed
			if tb < fb {
				tx.note("narrowing conversion treated as mathematical")
			}
			tx.define(x, v.S)
		}
	case fs == "Int" && ts == "Real":
		tx.define(x, "(to_real "+v.S+")")
	case fs == "Real" && ts == "Int":
		// truncation toward zero
		tx.define(x, fmt.Sprintf("(ite (>= %s 0.0) (to_int %s) (- (to_int (- %s))))", v.S, v.S, v.S))
		tx.note("float-to-int conversion: truncation of a Real (no overflow/NaN)")
	case fs == ts && fs != "Slice" && fs != "Str":
		tx.define(x, v.S)
	case fs == "Str" && ts == "Slice", fs == "Slice" && ts == "Str", fs == "Int" && ts == "Str":
		fn := "conv_" + sanitize(fs) + "_" + sanitize(ts)
		tx.d.declFun(fn, []string{fs, "Int"}, ts)
		// conversions copy: result depends on the content -> parameterised by heap version
		t := tx.define(x, sapp(fn, v.S, st.hv))
		tx.assumeTyped(t, to, st)
		if ts == "Slice" {
			tx.assume("(= (s-len " + t.S + ") (strlen " + v.S + "))")
			tx.note("string->[]byte conversion: fresh slice with uninterpreted content")
		}
		if fs == "Slice" && ts == "Str" {
			tx.assume("(= (strlen " + t.S + ") (s-len " + v.S + "))")
		}
	default:
		tx.define(x, v.S)
	}
}

// ---------- maps ----------

func (tx *FnTx) mapComps(mt *types.Map) (dom, val *Comp) {
	name := sanitize(shortType(mt))
	ks := tx.d.sortOf(mt.Key())
	vs := tx.d.sortOf(mt.Elem())
	d, ok := tx.h.comps["md_"+name]
	if !ok {
		d = &Comp{Name: "md_" + name, Kind: compCell, VSort: "(Array " + ks + " Bool)"}
		tx.h.comps[d.Name] = d
	}
	v, ok := tx.h.comps["mv_"+name]
	if !ok {
		v = &Comp{Name: "mv_" + name, Kind: compCell, VSort: "(Array " + ks + " " + vs + ")"}
		tx.h.comps[v.Name] = v
	}
	return d, v
}

func (tx *FnTx) mapUpdate(x *ssa.MapUpdate, st *State) *State {
	mt := x.Map.Type().Underlying().(*types.Map)
	m := tx.val(x.Map)
	k := tx.val(x.Key)
	v := tx.val(x.Value)
	tx.safety("nilmap", "(not (= "+m.S+" 0))", "write to non-nil map "+x.Map.Name())
	dom, val := tx.mapComps(mt)
	n := st.clone()
	dh := tx.h.heapTerm(st, dom)
	vh := tx.h.heapTerm(st, val)
	n.heaps[dom.Name] = sapp("store", dh, m.S, sapp("store", sapp("select", dh, m.S), k.S, "true"))
	n.heaps[val.Name] = sapp("store", vh, m.S, sapp("store", sapp("select", vh, m.S), k.S, v.S))
	n.hv = tx.d.fresh("hv", "Int")
	return n
}

func (tx *FnTx) lookup(x *ssa.Lookup, st *State) {
	mt, ok := x.X.Type().Underlying().(*types.Map)
	if !ok {
		// string index
		tx.unsupportedf("lookup on non-map")
		tx.define(x, "")
		return
	}
	m := tx.val(x.X)
	k := tx.val(x.Index)
	dom, val := tx.mapComps(mt)
	dh := tx.h.heapTerm(st, dom)
	vh := tx.h.heapTerm(st, val)
	present := sand("(not (= "+m.S+" 0))", sapp("select", sapp("select", dh, m.S), k.S))
	value := fmt.Sprintf("(ite %s %s %s)", present, sapp("select", sapp("select", vh, m.S), k.S), tx.d.zero(mt.Elem()).S)
	if x.CommaOk {
		vt := Term{S: tx.d.fresh(x.Name()+"_v", tx.d.sortOf(mt.Elem())), Sort: tx.d.sortOf(mt.Elem()), GT: mt.Elem()}
		tx.assume("(= " + vt.S + " " + value + ")")
		tx.assumeTyped(vt, mt.Elem(), st)
		okt := Term{S: tx.d.fresh(x.Name()+"_ok", "Bool"), Sort: "Bool"}
		tx.assume("(= " + okt.S + " " + present + ")")
		tx.tuples[x] = []Term{vt, okt}
		return
	}
	t := tx.define(x, value)
	tx.assumeTyped(t, mt.Elem(), st)
}

func (tx *FnTx) next(x *ssa.Next, st *State) *State {
	rng, _ := x.Iter.(*ssa.Range)
	okt := Term{S: tx.d.fresh(x.Name()+"_ok", "Bool"), Sort: "Bool"}
	if x.IsString || rng == nil {
		tx.tuples[x] = []Term{okt, {S: tx.d.fresh("k", "Int"), Sort: "Int"}, {S: tx.d.fresh("r", "Int"), Sort: "Int"}}
		tx.note("range over string in " + tx.key + ": unconstrained")
		return st
	}
	mt := rng.X.Type().Underlying().(*types.Map)
	m := tx.val(rng.X)
	dom, val := tx.mapComps(mt)
	dh := tx.h.heapTerm(st, dom)
	vh := tx.h.heapTerm(st, val)
	ks := tx.d.sortOf(mt.Key())
	kt := Term{S: tx.d.fresh(x.Name()+"_k", ks), Sort: ks, GT: mt.Key()}
	vt := Term{S: tx.d.fresh(x.Name()+"_v", tx.d.sortOf(mt.Elem())), Sort: tx.d.sortOf(mt.Elem()), GT: mt.Elem()}
	vkey := "visited!" + rng.Name()
	vsort := "(Array " + ks + " Bool)"
	vis := tx.h.ghostTerm(st, vkey, vsort)
	inDom := func(k string) string { return sapp("select", sapp("select", dh, m.S), k) }
	// a produced key is in the map now and was not produced before; when the iteration ends every key still in the map
	// has been produced (Go: entries removed before being reached are never produced; no insertion during iteration assumed)
	tx.assume(simp(okt.S, sand("(not (= "+m.S+" 0))", inDom(kt.S), snot(sapp("select", vis.S, kt.S)), "(= "+vt.S+" "+sapp("select", sapp("select", vh, m.S), kt.S)+")")))
	tx.nq++
	qk := fmt.Sprintf("k_n%d", tx.nq)
	tx.assume(simp(snot(okt.S), fmt.Sprintf("(forall ((%s %s)) (! (=> %s (select %s %s)) :pattern ((select %s %s))))", qk, ks, sand("(not (= "+m.S+" 0))", inDom(qk)), vis.S, qk, vis.S, qk)))
	tx.assumeTyped(kt, mt.Key(), st)
	tx.assumeTyped(vt, mt.Elem(), st)
	tx.tuples[x] = []Term{okt, kt, vt}
	n := st.clone()
	n.ghost[vkey] = Term{S: fmt.Sprintf("(ite %s (store %s %s true) %s)", okt.S, vis.S, kt.S, vis.S), Sort: vsort}
	tx.note("range over map in " + tx.key + ": arbitrary enumeration order; ghost visited-set tracks produced keys; no insertion during iteration assumed")
	return n
}
