package main

// Solver portfolio: each obligation is a standalone SMT-LIB file raced on z3 4.8, z3 5.1 and cvc5.

import (
	"bytes"
	"context"
	"fmt"
	"os"
	"os/exec"
	"path/filepath"
	"strings"
	"sync"
	"time"
)

const maxVCBytes = 4 << 20

func (o *Obligation) smt() string { return o.smtVariant(false) }

// smtVariant(relaxed=true) drops every quantified assumption/axiom: fewer assumptions, so unsat is still a proof;
// a sat answer is only a candidate counterexample (to be replayed).
func (o *Obligation) smtVariant(relaxed bool) string {
	var b strings.Builder
	b.WriteString("(set-option :produce-models true)\n(set-logic ALL)\n")
	b.WriteString(prelude)
	if o.tx != nil {
		// obligations of one function are discharged concurrently and share the function's declaration table and caches
		o.tx.smtMu.Lock()
		defer o.tx.smtMu.Unlock()
		dt := o.tx.d.text(-1)
		if o.Cover || relaxed {
			// reachability covers are decided modulo the quantified axioms/frames (dropping assumptions can only
			// make a cover easier to satisfy; the dropped ones are conservative definitions)
			keep := []string{}
			for _, l := range strings.Split(dt, "\n") {
				if !strings.Contains(l, "(forall ") {
					keep = append(keep, l)
				}
			}
			dt = strings.Join(keep, "\n")
		}
		b.WriteString(dt)
		b.WriteString("\n")
		b.WriteString(o.tx.d.strDistinct())
		b.WriteString("\n")
		rel := o.tx.relevantBlocks(o.Block)
		for i := 0; i < o.NAssume && i < len(o.tx.assumes); i++ {
			if rel != nil && i < len(o.tx.assumeTags) && o.tx.assumeTags[i] >= 0 && !rel[o.tx.assumeTags[i]] {
				continue
			}
			if (o.Cover || relaxed) && (strings.Contains(o.tx.assumes[i], "(forall ") || strings.Contains(o.tx.assumes[i], "(exists ")) {
				continue
			}
			b.WriteString("(assert " + o.tx.assumes[i] + ")\n")
		}
	}
	for _, e := range o.Extra {
		b.WriteString(e + "\n")
	}
	b.WriteString("; obligation " + o.Name + "\n; " + strings.ReplaceAll(o.Src, "\n", " ") + "\n")
	b.WriteString("(assert " + o.Reach + ")\n")
	b.WriteString("(assert (not " + o.Goal + "))\n")
	b.WriteString("(check-sat)\n(get-model)\n")
	return b.String()
}

type solverSpec struct {
	name string
	args func(timeoutS int, file string) []string
}

var solvers = []solverSpec{
	{"z3-5.1", func(t int, f string) []string { return []string{"z3-new", "-smt2", fmt.Sprintf("-T:%d", t), f} }},
	{"z3-4.8", func(t int, f string) []string { return []string{"z3", "-smt2", fmt.Sprintf("-T:%d", t), f} }},
	{"z3-5.1-ematch", func(t int, f string) []string {
		return []string{"z3-new", "-smt2", fmt.Sprintf("-T:%d", t), "smt.auto_config=false", "smt.mbqi=false", f}
	}},
	{"cvc5-1.0", func(t int, f string) []string {
		return []string{"cvc5", fmt.Sprintf("--tlimit=%d", t*1000), "--full-saturate-quant", f}
	}},
}

type solveResult struct {
	solver string
	status string // unsat sat unknown
	out    string
	secs   float64
}

func runSolver(ctx context.Context, s solverSpec, timeoutS int, file string) solveResult {
	t0 := time.Now()
	a := s.args(timeoutS, file)
	cctx, cancel := context.WithTimeout(ctx, time.Duration(timeoutS+3)*time.Second)
	defer cancel()
	cmd := exec.CommandContext(cctx, a[0], a[1:]...)
	var out bytes.Buffer
	cmd.Stdout = &out
	cmd.Stderr = &out
	_ = cmd.Run()
	txt := out.String()
	first := strings.TrimSpace(strings.SplitN(txt, "\n", 2)[0])
	st := "unknown"
	switch first {
	case "unsat":
		st = "unsat"
	case "sat":
		st = "sat"
	}
	if st == "unknown" && strings.Contains(txt, "(error") && !strings.HasPrefix(first, "unknown") && !strings.HasPrefix(first, "timeout") {
		st = "error"
	}
	return solveResult{solver: s.name, status: st, out: txt, secs: time.Since(t0).Seconds()}
}

// discharge runs the portfolio on one obligation.
func discharge(o *Obligation, dir string, timeoutS int) {
	text := o.smt()
	fname := filepath.Join(dir, sanitize(o.Name)+".smt2")
	if len(fname) > 240 {
		fname = fname[:200] + fmt.Sprintf("_%x.smt2", len(o.Name)*7919+len(text))
	}
	o.File = fname
	if len(text) > maxVCBytes {
		o.Status = "error"
		o.Output = fmt.Sprintf("VC too large (%d bytes)", len(text))
		return
	}
	if err := os.WriteFile(fname, []byte(text), 0o644); err != nil {
		o.Status = "error"
		o.Output = err.Error()
		return
	}
	ctx, cancel := context.WithCancel(context.Background())
	defer cancel()
	nruns := len(solvers)
	ch := make(chan solveResult, 3*len(solvers))
	for _, s := range solvers {
		go func(s solverSpec) { ch <- runSolver(ctx, s, timeoutS, fname) }(s)
	}
	// second encoding: products/quotients by symbolic multipliers as uninterpreted functions (sound abstraction)
	if !o.Cover {
		if uf := mulUFVariant(text); uf != "" {
			ufFile := strings.TrimSuffix(fname, ".smt2") + ".muluf.smt2"
			if err := os.WriteFile(ufFile, []byte(uf), 0o644); err == nil {
				for _, s := range solvers {
					nruns++
					go func(s solverSpec) {
						// the second encoding only starts if the plain one has not answered quickly (saves CPU: most
						// obligations are decided in well under a second)
						select {
						case <-ctx.Done():
							ch <- solveResult{solver: s.name + "+muluf", status: "unknown", out: "not started"}
							return
						case <-time.After(2500 * time.Millisecond):
						}
						r := runSolver(ctx, s, timeoutS, ufFile)
						r.solver += "+muluf"
						if r.status == "sat" {
							r.status = "unknown" // abstraction: a model may be spurious
						}
						ch <- r
					}(s)
				}
			}
		}
	}
	if !o.Cover {
		if nv := mulNormVariant(text); nv != "" {
			nvFile := strings.TrimSuffix(fname, ".smt2") + ".mulnorm.smt2"
			if err := os.WriteFile(nvFile, []byte(nv), 0o644); err == nil {
				for _, s := range solvers[:3] {
					nruns++
					go func(s solverSpec) {
						select {
						case <-ctx.Done():
							ch <- solveResult{solver: s.name + "+mulnorm", status: "unknown", out: "not started"}
							return
						case <-time.After(2500 * time.Millisecond):
						}
						r := runSolver(ctx, s, timeoutS, nvFile)
						r.solver += "+mulnorm"
						if r.status == "sat" {
							r.status = "unknown"
						}
						ch <- r
					}(s)
				}
			}
		}
	}
	var outs []string
	var best *solveResult
	t0 := time.Now()
	for k := 0; k < nruns; k++ {
		r := <-ch
		outs = append(outs, fmt.Sprintf("--- %s (%.2fs): %s", r.solver, r.secs, trunc(strings.TrimSpace(r.out), 300)))
		if r.status == "unsat" {
			rr := r
			best = &rr
			break
		}
		if r.status == "sat" && best == nil {
			rr := r
			best = &rr
			if o.Cover {
				break
			}
			// keep waiting briefly for an unsat from another solver? a sat answer is definitive for QF goals;
			// for quantified goals a solver may not report sat at all. Accept it.
			break
		}
	}
	cancel()
	o.TimeS = time.Since(t0).Seconds()
	if best == nil && !o.Cover && strings.Contains(text, "(forall ") {
		// second chance: the quantifier-free relaxation
		rf := strings.TrimSuffix(fname, ".smt2") + ".relaxed.smt2"
		os.WriteFile(rf, []byte(o.smtVariant(true)), 0o644)
		rt := timeoutS / 2
		if rt < 5 {
			rt = 5
		}
		for _, sv := range solvers[:2] {
			r := runSolver(context.Background(), sv, rt, rf)
			outs = append(outs, fmt.Sprintf("--- relaxed %s (%.2fs): %s", r.solver, r.secs, trunc(strings.TrimSpace(r.out), 200)))
			if r.status == "unsat" || r.status == "sat" {
				rr := r
				rr.solver += "+relaxed"
				best = &rr
				break
			}
		}
		o.TimeS = time.Since(t0).Seconds()
	}
	if best == nil {
		o.Status = "unknown"
		o.Output = strings.Join(outs, "\n")
		if o.Cover {
			o.Status = "cover-unknown"
		}
		return
	}
	o.Solver = best.solver
	if o.Cover {
		if best.status == "sat" {
			o.Status = "covered"
		} else {
			o.Status = "vacuous"
		}
		return
	}
	if best.status == "unsat" {
		o.Status = "proved"
		return
	}
	o.Status = "failed"
	o.Model = best.out
	o.Output = strings.Join(outs, "\n")
}

// maxFailures: once this many obligations have come back not-proved, the remaining ones are skipped (the verdict is
// already a violation; every further red obligation costs a full solver timeout).
var maxFailures = 4

func dischargeAll(obls []*Obligation, dir string, timeoutS int, par int) {
	var wg sync.WaitGroup
	var mu sync.Mutex
	nfail := 0
	sem := make(chan struct{}, par)
	for _, o := range obls {
		mu.Lock()
		stop := nfail >= maxFailures
		mu.Unlock()
		if stop {
			o.Status = "skipped"
			continue
		}
		wg.Add(1)
		sem <- struct{}{}
		go func(o *Obligation) {
			defer wg.Done()
			defer func() { <-sem }()
			discharge(o, dir, timeoutS)
			if !o.Cover && o.Status != "proved" {
				mu.Lock()
				nfail++
				mu.Unlock()
			}
		}(o)
	}
	wg.Wait()
}
