package main

// Verification-condition generation for one SSA function against its contract.

import (
	"fmt"
	"go/constant"
	"go/token"
	"go/types"
	"sort"
	"strings"
	"sync"

	"golang.org/x/tools/go/ssa"
)

type Obligation struct {
	Name    string
	Fn      string
	Kind    string // pre post frame inv-init inv-pres dec safe assert cover lemma loopframe
	Label   string
	Goal    string
	Reach   string
	NAssume int
	Src     string
	Bounded string // name of the bounded instance this obligation belongs to ("" = unbounded)
	Cover   bool   // expects sat (vacuity guard)
	Block   int    // block the obligation belongs to (-1: none); only assumptions of its CFG ancestors are relevant
	tx      *FnTx
	Extra   []string // extra declarations-free assertions local to this obligation
	// results
	Status   string // proved | failed | unknown | error
	Solver   string
	TimeS    float64
	Output   string
	Model    string
	File     string
	replayed bool
}

type loopInfo struct {
	header   *ssa.BasicBlock
	ordinal  int
	spec     *LoopSpec
	pre      *State // merged state on loop entry
	head     *State // havocked state at the head
	phiHead  map[*ssa.Phi]Term
	regions  []ModRegion
	body     map[*ssa.BasicBlock]bool
	decHead  string
	havocAll bool
}

type FnTx struct {
	ld   *Loaded
	prog *ssa.Program
	cs   *Contracts
	fn   *ssa.Function
	c    *FnContract
	key  string
	d    *Decls
	h    *HeapEnv

	assumes     []string
	assumeTags  []int // block index in which each assumption was made (-1: function entry)
	tagOverride int   // when >= 0: tag for assumptions made outside block execution
	obls        []*Obligation

	vals        map[ssa.Value]Term
	locs        map[ssa.Value]*Loc
	tuples      map[ssa.Value][]Term
	reach       map[*ssa.BasicBlock]string
	out         map[*ssa.BasicBlock]*State
	entry       *State
	curBlock    *ssa.BasicBlock
	curReach    string
	curIdx      int
	curCallArgs []Term

	localAlloc  map[*ssa.Alloc]bool
	privFV      map[*ssa.FreeVar]bool
	loops       map[*ssa.BasicBlock]*loopInfo
	lets        map[string]Term
	globals     map[*ssa.Global]int
	nq          int
	ncall       map[string]int
	nsafe       map[string]int
	notes       map[string]int // assumption notes for evidence
	unsupported []string
	deferred    []*ssa.Defer
	smtMu       sync.Mutex
	assertSites map[string]int             // call-assert label -> number of call sites it was checked at
	fnValSorts  map[string][2][]types.Type // name -> (param types, result types)
	retStates   []retPoint
	instance    string                      // bounded instance name ("" = unbounded)
	privObj     map[*ssa.FreeVar]*types.Map // private captured cells holding a map object that never escapes the parent
	relCache    map[int]map[int]bool
	oblBlock    int
}

type retPoint struct {
	reach   string
	st      *State
	results []Term
	block   int
}

func fnKey(fn *ssa.Function) string {
	s := fn.String()
	s = strings.ReplaceAll(s, modPath+"/", "")
	s = strings.ReplaceAll(s, modPath+".", "zenodb.")
	return s
}

func ifaceKey(t types.Type, method string) string {
	return "iface." + shortType(t) + "." + method
}

func newFnTx(ld *Loaded, cs *Contracts, fn *ssa.Function, c *FnContract) *FnTx {
	d := newDecls()
	tx := &FnTx{ld: ld, prog: ld.Prog, cs: cs, fn: fn, c: c, key: fnKey(fn), d: d,
		h:    &HeapEnv{d: d, comps: map[string]*Comp{}},
		vals: map[ssa.Value]Term{}, locs: map[ssa.Value]*Loc{}, tuples: map[ssa.Value][]Term{},
		reach: map[*ssa.BasicBlock]string{}, out: map[*ssa.BasicBlock]*State{},
		localAlloc: map[*ssa.Alloc]bool{}, privFV: map[*ssa.FreeVar]bool{}, loops: map[*ssa.BasicBlock]*loopInfo{},
		lets: map[string]Term{}, globals: map[*ssa.Global]int{}, ncall: map[string]int{}, nsafe: map[string]int{}, assertSites: map[string]int{},
		notes: map[string]int{}, fnValSorts: map[string][2][]types.Type{}, oblBlock: -1}
	return tx
}

func (tx *FnTx) note(s string) { tx.notes[s]++ }

func (tx *FnTx) assume(s string) {
	if s == "true" {
		return
	}
	tx.assumes = append(tx.assumes, s)
	tag := -1
	if tx.curBlock != nil {
		tag = tx.curBlock.Index
	}
	tx.assumeTags = append(tx.assumeTags, tag)
}

// relevantBlocks: the blocks from which block b is reachable along forward (non-back) edges, plus b itself.
func (tx *FnTx) relevantBlocks(b int) map[int]bool {
	if tx.fn == nil || b < 0 || b >= len(tx.fn.Blocks) {
		return nil
	}
	if tx.relCache == nil {
		tx.relCache = map[int]map[int]bool{}
	}
	if r, ok := tx.relCache[b]; ok {
		return r
	}
	r := map[int]bool{b: true}
	stack := []*ssa.BasicBlock{tx.fn.Blocks[b]}
	for len(stack) > 0 {
		x := stack[len(stack)-1]
		stack = stack[:len(stack)-1]
		for _, p := range x.Preds {
			if isBackEdge(p, x) || r[p.Index] {
				continue
			}
			r[p.Index] = true
			stack = append(stack, p)
		}
	}
	tx.relCache[b] = r
	return r
}

func (tx *FnTx) assumeReach(s string) {
	tx.assume(simp(tx.curReach, s))
}

func (tx *FnTx) oblige(kind, label, goal, reach, src string) *Obligation {
	if tx.instance != "" {
		label += "[" + tx.instance + "]"
	}
	o := &Obligation{Bounded: tx.instance, Name: tx.key + "#" + kind + ":" + label, Fn: tx.key, Kind: kind, Label: label, Goal: goal, Reach: reach, NAssume: len(tx.assumes), Src: src, tx: tx, Block: -1}
	if tx.curBlock != nil {
		o.Block = tx.curBlock.Index
	}
	if tx.oblBlock >= 0 {
		o.Block = tx.oblBlock
	}
	if kind == "cover" {
		o.Cover = true
	}
	tx.obls = append(tx.obls, o)
	return o
}

func (tx *FnTx) unsupportedf(format string, a ...interface{}) {
	tx.unsupported = append(tx.unsupported, fmt.Sprintf(format, a...))
}

func (tx *FnTx) timeType() types.Type {
	if p := tx.prog.ImportedPackage("time"); p != nil {
		return p.Type("Time").Type()
	}
	return nil
}

func (tx *FnTx) typeIDByName(name string) int {
	// name like "float64", "string", "*expr.aggregate", "sqlparser.Select"
	for k, id := range tx.d.tyIDs {
		if k == name || strings.HasSuffix(k, "/"+name) || strings.HasSuffix(k, "/"+strings.TrimPrefix(name, "*")) && strings.HasPrefix(name, "*") && strings.HasPrefix(k, "*") {
			return id
		}
	}
	// try to resolve through the program's packages
	star := strings.HasPrefix(name, "*")
	base := strings.TrimPrefix(name, "*")
	if !strings.Contains(base, ".") {
		if bt := types.Universe.Lookup(base); bt != nil {
			return tx.d.typeID(bt.Type())
		}
		return -1
	}
	dot := strings.LastIndex(base, ".")
	pkgName, tname := base[:dot], base[dot+1:]
	for _, p := range tx.prog.AllPackages() {
		pp := p.Pkg.Path()
		if pp == pkgName || strings.HasSuffix(pp, "/"+pkgName) {
			if o := p.Pkg.Scope().Lookup(tname); o != nil {
				var t types.Type = o.Type()
				if star {
					t = types.NewPointer(t)
				}
				return tx.d.typeID(t)
			}
		}
	}
	return -1
}

func (tx *FnTx) globalFor(v *types.Var) *ssa.Global {
	if v.Pkg() == nil {
		return nil
	}
	p := tx.prog.Package(v.Pkg())
	if p == nil {
		return nil
	}
	g, _ := p.Members[v.Name()].(*ssa.Global)
	return g
}

func (tx *FnTx) globalRef(g *ssa.Global) string {
	id, ok := tx.globals[g]
	if !ok {
		id = len(tx.globals) + 1
		tx.globals[g] = id
	}
	return fmt.Sprintf("(- %d)", id)
}

// ---------- values ----------

func (tx *FnTx) constTerm(c *ssa.Const) Term {
	t := c.Type()
	srt := tx.d.sortOf(t)
	if c.Value == nil {
		return tx.d.zero(t)
	}
	switch c.Value.Kind() {
	case constant.Bool:
		return Term{S: fmt.Sprint(constant.BoolVal(c.Value)), Sort: "Bool", GT: t}
	case constant.String:
		return Term{S: tx.d.strLit(constant.StringVal(c.Value)), Sort: "Str", GT: t}
	case constant.Int:
		if srt == "Real" {
			return Term{S: intLit(c.Value.ExactString()) + ".0", Sort: "Real", GT: t}
		}
		return Term{S: intLit(c.Value.ExactString()), Sort: "Int", GT: t}
	case constant.Float:
		if srt == "Int" {
			i, _ := constant.Int64Val(constant.ToInt(c.Value))
			return Term{S: intLit(fmt.Sprint(i)), Sort: "Int", GT: t}
		}
		f, _ := constant.Float64Val(c.Value)
		// exact rational when possible
		if r := constant.ToInt(c.Value); r.Kind() == constant.Int {
			return Term{S: intLit(r.ExactString()) + ".0", Sort: "Real", GT: t}
		}
		return Term{S: realLit(f), Sort: "Real", GT: t}
	}
	return tx.d.zero(t)
}

func (tx *FnTx) val(v ssa.Value) Term {
	switch x := v.(type) {
	case *ssa.Const:
		return tx.constTerm(x)
	case *ssa.Global:
		return Term{S: tx.globalRef(x), Sort: "Int", GT: x.Type()}
	case *ssa.Function:
		n := "fnval_" + sanitize(fnKey(x))
		tx.d.declConst(n, "Int")
		return Term{S: n, Sort: "Int", GT: x.Type()}
	}
	if t, ok := tx.vals[v]; ok {
		return t
	}
	if l, ok := tx.locs[v]; ok {
		return tx.ptrTerm(l, v.Type())
	}
	if a, ok := v.(*ssa.Alloc); ok && tx.localAlloc[a] {
		n := "localaddr_" + sanitize(a.Name())
		tx.d.declConst(n, "Int")
		return Term{S: n, Sort: "Int", GT: v.Type()}
	}
	tx.unsupportedf("value %s (%T) used before definition", v.Name(), v)
	n := tx.d.fresh("undef_"+v.Name(), tx.d.sortOf(v.Type()))
	t := Term{S: n, Sort: tx.d.sortOf(v.Type()), GT: v.Type()}
	tx.vals[v] = t
	return t
}

// ptrTerm makes an opaque Int term for a pointer to a static location.
func (tx *FnTx) ptrTerm(l *Loc, t types.Type) Term {
	if l.Kind == locLocal {
		n := "localaddr_" + sanitize(l.Local.Name())
		tx.d.declConst(n, "Int")
		return Term{S: n, Sort: "Int", GT: t}
	}
	name := "addr_" + l.Comp.Name
	for _, p := range l.Path {
		if p.IsIndex {
			name += "_ix"
		} else {
			name += fmt.Sprintf("_f%d", p.Field)
		}
	}
	args := []string{l.Ref}
	sorts := []string{"Int"}
	if l.Comp.Kind == compElem {
		args = append(args, l.Idx)
		sorts = append(sorts, "Int")
	}
	for _, p := range l.Path {
		if p.IsIndex {
			args = append(args, p.Index)
			sorts = append(sorts, "Int")
		}
	}
	tx.d.declFun(name, sorts, "Int")
	return Term{S: sapp(name, args...), Sort: "Int", GT: t}
}

// assumeTyped adds the representation invariants of a value of Go type gt.
func (tx *FnTx) typeInv(t Term, gt types.Type, alloc string, depth int) string {
	if gt == nil || depth > 2 {
		return "true"
	}
	if isTimeType(gt) {
		return "true"
	}
	switch u := gt.Underlying().(type) {
	case *types.Basic:
		if u.Info()&types.IsUnsigned != 0 {
			bits := map[types.BasicKind]string{types.Uint8: "255", types.Uint16: "65535", types.Uint32: "4294967295", types.Uint64: "18446744073709551615", types.Uint: "18446744073709551615", types.Uintptr: "18446744073709551615"}
			if m, ok := bits[u.Kind()]; ok {
				return sand("(<= 0 "+t.S+")", "(<= "+t.S+" "+m+")")
			}
		}
		if u.Info()&types.IsString != 0 {
			return "(>= (strlen " + t.S + ") 0)"
		}
		switch u.Kind() {
		case types.Int64, types.Int:
			return sand("(<= (- 9223372036854775808) "+t.S+")", "(<= "+t.S+" 9223372036854775807)")
		case types.Int32:
			return sand("(<= (- 2147483648) "+t.S+")", "(<= "+t.S+" 2147483647)")
		}
	case *types.Interface:
		return "(=> (= (i-typ " + t.S + ") 0) (= (i-val " + t.S + ") 0))"
	case *types.Slice:
		return sand("(wfslice "+t.S+")", "(< (s-obj "+t.S+") "+alloc+")")
	case *types.Pointer, *types.Map, *types.Chan:
		return "(< " + t.S + " " + alloc + ")"
	case *types.Struct:
		parts := []string{}
		sname := tx.d.sortOf(gt)
		for i := 0; i < u.NumFields(); i++ {
			ft := u.Field(i).Type()
			f := Term{S: sapp(tx.d.fieldSel(sname, u, i), t.S), Sort: tx.d.sortOf(ft), GT: ft}
			parts = append(parts, tx.typeInv(f, ft, alloc, depth+1))
		}
		return sand(parts...)
	}
	return "true"
}

func (tx *FnTx) assumeTyped(t Term, gt types.Type, st *State) {
	inv := tx.typeInv(t, gt, st.alloc, 0)
	if inv != "true" {
		tx.assume(inv)
	}
}

func (tx *FnTx) define(v ssa.Value, s string) Term {
	gt := v.Type()
	srt := tx.d.sortOf(gt)
	name := sanitize(v.Name())
	if _, isParam := v.(*ssa.Parameter); isParam {
		name = "p_" + name
	}
	tx.d.declConst(name, srt)
	if s != "" {
		tx.assume("(= " + name + " " + s + ")")
	}
	t := Term{S: name, Sort: srt, GT: gt}
	tx.vals[v] = t
	return t
}

// ---------- escape analysis for Allocs / private captured cells ----------

func allocIsLocal(a *ssa.Alloc) bool {
	var ok func(v ssa.Value, depth int) bool
	ok = func(v ssa.Value, depth int) bool {
		if depth > 6 {
			return false
		}
		refs := v.Referrers()
		if refs == nil {
			return false
		}
		for _, r := range *refs {
			switch x := r.(type) {
			case *ssa.UnOp:
				if x.Op != token.MUL {
					return false
				}
			case *ssa.Store:
				if x.Val == v {
					return false
				}
			case *ssa.FieldAddr:
				if !ok(x, depth+1) {
					return false
				}
			case *ssa.IndexAddr:
				if x.X != v || !ok(x, depth+1) {
					return false
				}
			case *ssa.DebugRef:
			case *ssa.MakeClosure:
				// captured by a closure that only reads it: nobody else can write the cell
				cf, isFn := x.Fn.(*ssa.Function)
				if !isFn {
					return false
				}
				for bi, b := range x.Bindings {
					if b != v {
						continue
					}
					if bi >= len(cf.FreeVars) || cf.FreeVars[bi].Referrers() == nil {
						return false
					}
					for _, fr := range *cf.FreeVars[bi].Referrers() {
						switch y := fr.(type) {
						case *ssa.UnOp:
							if y.Op != token.MUL {
								return false
							}
						case *ssa.DebugRef:
						default:
							return false
						}
					}
				}
			default:
				return false
			}
		}
		return true
	}
	return ok(a, 0)
}

func isAtomicOrSyncCall(c *ssa.CallCommon) bool {
	f := c.StaticCallee()
	if f == nil || f.Pkg == nil {
		return false
	}
	p := f.Pkg.Pkg.Path()
	return p == "sync/atomic"
}

// freeVarPrivate: the captured cell is only accessed by the parent (stores/loads) and this closure.
func freeVarPrivate(fn *ssa.Function, idx int) bool {
	parent := fn.Parent()
	if parent == nil {
		return false
	}
	fv := fn.FreeVars[idx]
	// uses inside the closure
	for _, r := range *fv.Referrers() {
		switch x := r.(type) {
		case *ssa.UnOp:
			if x.Op != token.MUL {
				return false
			}
		case *ssa.Store:
			if x.Val == fv {
				return false
			}
		case *ssa.DebugRef:
		case *ssa.Call:
			if !isAtomicOrSyncCall(&x.Call) {
				return false
			}
		default:
			return false
		}
	}
	found := false
	for _, b := range parent.Blocks {
		for _, in := range b.Instrs {
			mc, ok := in.(*ssa.MakeClosure)
			if !ok || mc.Fn != fn {
				continue
			}
			found = true
			bind := mc.Bindings[idx]
			refs := bind.Referrers()
			if refs == nil {
				return false
			}
			for _, r := range *refs {
				switch x := r.(type) {
				case *ssa.UnOp:
					if x.Op != token.MUL {
						return false
					}
				case *ssa.Store:
					if x.Val == bind {
						return false
					}
				case *ssa.DebugRef:
				case *ssa.MakeClosure:
					if x.Fn != fn {
						return false
					}
				case *ssa.Call:
					if !isAtomicOrSyncCall(&x.Call) {
						return false
					}
				default:
					return false
				}
			}
		}
	}
	return found
}

// ---------- pointer access ----------

func (tx *FnTx) locOfPointer(p ssa.Value, st *State) *Loc {
	if l, ok := tx.locs[p]; ok {
		return l
	}
	pt, ok := p.Type().Underlying().(*types.Pointer)
	if !ok {
		return nil
	}
	if a, ok := p.(*ssa.Alloc); ok && tx.localAlloc[a] {
		return &Loc{Kind: locLocal, Local: a, T: pt.Elem()}
	}
	if fv, ok := p.(*ssa.FreeVar); ok && tx.privFV[fv] {
		return &Loc{Kind: locLocal, Local: fv, T: pt.Elem()}
	}
	if _, isStruct := pt.Elem().Underlying().(*types.Struct); isStruct && !isTimeType(pt.Elem()) {
		return nil // struct pointee: handled field-wise
	}
	if _, isArr := pt.Elem().Underlying().(*types.Array); isArr {
		return nil // arrays behind pointers live in the element heap
	}
	ref := tx.val(p)
	return &Loc{Kind: locHeap, Comp: tx.h.cellComp(pt.Elem()), Ref: ref.S, T: pt.Elem()}
}

// constGlobal returns the term standing for a package-level variable declared const_global (never assigned outside init).
func (tx *FnTx) constGlobal(g *ssa.Global) (Term, bool) {
	key := strings.ReplaceAll(g.String(), modPath+"/", "")
	key = strings.ReplaceAll(key, modPath+".", "zenodb.")
	cg, ok := tx.cs.ConstGlobals[key]
	if !ok {
		return Term{}, false
	}
	et := g.Type().Underlying().(*types.Pointer).Elem()
	name := "cglob_" + sanitize(key)
	t := Term{S: name, Sort: tx.d.sortOf(et), GT: et}
	if !tx.d.seen["c:"+name] {
		tx.d.declConst(name, t.Sort)
		env := &SpecEnv{tx: tx, vars: map[string]Term{cg.Name: t}, locs: map[string]*Loc{}, cur: tx.entry, old: tx.entry, pkg: g.Pkg.Pkg}
		s, err := env.TrBool(cg.Inv.E)
		if err != nil {
			panic(specErr{fmt.Sprintf("const_global %s: %v", key, err)})
		}
		tx.assume(s)
		tx.note("package variable " + key + " treated as constant (mechanically checked: no store outside init)")
	}
	return t, true
}

func (tx *FnTx) load(p ssa.Value, st *State) Term {
	if g, ok := p.(*ssa.Global); ok {
		if t, ok := tx.constGlobal(g); ok {
			return t
		}
	}
	if l := tx.locOfPointer(p, st); l != nil {
		return tx.h.read(st, l)
	}
	pt := p.Type().Underlying().(*types.Pointer)
	stt, ok := pt.Elem().Underlying().(*types.Struct)
	if !ok {
		tx.unsupportedf("load through %s", p.Name())
		return Term{S: tx.d.fresh("ld", tx.d.sortOf(pt.Elem())), Sort: tx.d.sortOf(pt.Elem()), GT: pt.Elem()}
	}
	ref := tx.val(p)
	sname := tx.d.sortOf(pt.Elem())
	parts := []string{}
	for i := 0; i < stt.NumFields(); i++ {
		c := tx.h.fieldComp(pt.Elem(), i)
		parts = append(parts, sapp("select", tx.h.heapTerm(st, c), ref.S))
	}
	return Term{S: sapp("mk_"+sname, parts...), Sort: sname, GT: pt.Elem()}
}

func (tx *FnTx) store(p ssa.Value, v Term, st *State) *State {
	if l := tx.locOfPointer(p, st); l != nil {
		return tx.h.write(st, l, v.S)
	}
	pt := p.Type().Underlying().(*types.Pointer)
	stt, ok := pt.Elem().Underlying().(*types.Struct)
	if !ok {
		tx.unsupportedf("store through %s", p.Name())
		return st
	}
	ref := tx.val(p)
	sname := tx.d.sortOf(pt.Elem())
	cur := st
	for i := 0; i < stt.NumFields(); i++ {
		c := tx.h.fieldComp(pt.Elem(), i)
		l := &Loc{Kind: locHeap, Comp: c, Ref: ref.S, T: stt.Field(i).Type()}
		cur = tx.h.write(cur, l, sapp(tx.d.fieldSel(sname, stt, i), v.S))
	}
	return cur
}

// ---------- CFG helpers ----------

func isBackEdge(u, v *ssa.BasicBlock) bool { return v.Dominates(u) }

func (tx *FnTx) order() []*ssa.BasicBlock {
	seen := map[*ssa.BasicBlock]bool{}
	var post []*ssa.BasicBlock
	var dfs func(b *ssa.BasicBlock)
	dfs = func(b *ssa.BasicBlock) {
		seen[b] = true
		for _, s := range b.Succs {
			if isBackEdge(b, s) || seen[s] {
				continue
			}
			dfs(s)
		}
		post = append(post, b)
	}
	dfs(tx.fn.Blocks[0])
	if tx.fn.Recover != nil && !seen[tx.fn.Recover] {
		// recover block is handled separately (not reachable in the normal CFG)
	}
	for i, j := 0, len(post)-1; i < j; i, j = i+1, j-1 {
		post[i], post[j] = post[j], post[i]
	}
	return post
}

func (tx *FnTx) edgeCond(u, v *ssa.BasicBlock, succIdx int) string {
	r := tx.reach[u]
	last := u.Instrs[len(u.Instrs)-1]
	if iff, ok := last.(*ssa.If); ok {
		c := tx.val(iff.Cond).S
		if u.Succs[0] == u.Succs[1] {
			return r
		}
		if succIdx == 0 {
			return sand(r, c)
		}
		return sand(r, snot(c))
	}
	return r
}

func (tx *FnTx) findLoops() {
	var headers []*ssa.BasicBlock
	for _, b := range tx.fn.Blocks {
		for _, p := range b.Preds {
			if isBackEdge(p, b) {
				if tx.loops[b] == nil {
					tx.loops[b] = &loopInfo{header: b, body: map[*ssa.BasicBlock]bool{b: true}, phiHead: map[*ssa.Phi]Term{}}
					headers = append(headers, b)
				}
				// natural loop body
				li := tx.loops[b]
				var stack []*ssa.BasicBlock
				if !li.body[p] {
					li.body[p] = true
					stack = append(stack, p)
				}
				for len(stack) > 0 {
					x := stack[len(stack)-1]
					stack = stack[:len(stack)-1]
					for _, q := range x.Preds {
						if !li.body[q] {
							li.body[q] = true
							stack = append(stack, q)
						}
					}
				}
			}
		}
	}
	sort.Slice(headers, func(i, j int) bool { return headers[i].Index < headers[j].Index })
	for i, h := range headers {
		tx.loops[h].ordinal = i
		if tx.c != nil {
			tx.loops[h].spec = tx.c.Loops[i]
		}
	}
}

// resolveLocalAt returns a resolver of source-level variable names to SSA values as of the top of block b.
func (tx *FnTx) resolverAt(b *ssa.BasicBlock, phiOverride map[*ssa.Phi]Term, atEnd bool) func(string) (Term, *Loc, bool) {
	return tx.resolverUpTo(b, phiOverride, atEnd, -1)
}

// resolverUpTo: like resolverAt, but in block b only instructions with index < limit are considered (limit<0: all).
func (tx *FnTx) resolverUpTo(b *ssa.BasicBlock, phiOverride map[*ssa.Phi]Term, atEnd bool, limit int) func(string) (Term, *Loc, bool) {
	return func(name string) (Term, *Loc, bool) {
		// range-loop iteration counter: $i = completed iterations
		cur := b
		first := true
		for cur != nil {
			instrs := cur.Instrs
			if first && limit >= 0 && limit < len(instrs) {
				instrs = instrs[:limit]
			}
			for k := len(instrs) - 1; k >= 0; k-- {
				in := instrs[k]
				if first && !atEnd {
					// at the top of the header: only phis count
					ph, ok := in.(*ssa.Phi)
					if !ok {
						continue
					}
					if ph.Comment == name || (name == "$i" && ph.Comment == "rangeindex") {
						t, ok := phiOverride[ph]
						if !ok {
							t = tx.val(ph)
						}
						if name == "$i" {
							t = Term{S: "(+ " + t.S + " 1)", Sort: "Int"}
						}
						return t, nil, true
					}
					continue
				}
				switch x := in.(type) {
				case *ssa.Phi:
					if x.Comment == name {
						if t, ok := phiOverride[x]; ok {
							return t, nil, true
						}
						return tx.val(x), nil, true
					}
				case *ssa.DebugRef:
					if id, ok := x.Expr.(interface{ String() string }); ok {
						_ = id
					}
					if obj := x.Object(); obj != nil && obj.Name() == name {
						if x.IsAddr {
							l := tx.locOfPointer(x.X, nil)
							if l != nil {
								return Term{}, l, true
							}
							continue
						}
						if _, isFn := x.X.(*ssa.Function); isFn {
							continue
						}
						// a variable that lives in a cell (captured by a closure, address taken): this reference is one
						// READ of it; the name denotes the cell's current content, not the value read here
						if a := tx.cellOf(obj); a != nil {
							if l := tx.locOfPointer(a, nil); l != nil {
								return Term{}, l, true
							}
						}
						return tx.val(x.X), nil, true
					}
				}
			}
			first = false
			cur = cur.Idom()
		}
		// not on the dominator path: a variable assigned on some earlier branch only (e.g. inside an `if`). If exactly
		// one SSA value carries that name in the CFG ancestors of b, outside any loop, the name denotes that value
		// (unconstrained when the branch was not taken - clauses must guard for that themselves).
		if atEnd && b != nil {
			var found ssa.Value
			n := 0
			for _, ab := range tx.ancestorsOf(b) {
				if tx.inAnyLoop(ab) {
					continue
				}
				for _, in := range ab.Instrs {
					if x, ok := in.(*ssa.DebugRef); ok && !x.IsAddr {
						if obj := x.Object(); obj != nil && obj.Name() == name {
							if _, isFn := x.X.(*ssa.Function); isFn {
								continue
							}
							if found != x.X {
								found = x.X
								n++
							}
						}
					}
				}
			}
			if n == 1 {
				if _, ok := tx.vals[found]; ok {
					return tx.val(found), nil, true
				}
			}
		}
		return Term{}, nil, false
	}
}

// cellOf returns the Alloc that holds the source variable obj, if the variable lives in a cell of this function.
func (tx *FnTx) cellOf(obj types.Object) *ssa.Alloc {
	if obj == nil || !obj.Pos().IsValid() {
		return nil
	}
	for _, b := range tx.fn.Blocks {
		for _, in := range b.Instrs {
			if a, ok := in.(*ssa.Alloc); ok && a.Comment == obj.Name() && a.Pos() == obj.Pos() {
				return a
			}
		}
	}
	return nil
}

// ancestorsOf: the blocks from which b is reachable (excluding b itself), in index order.
func (tx *FnTx) ancestorsOf(b *ssa.BasicBlock) []*ssa.BasicBlock {
	seen := map[*ssa.BasicBlock]bool{}
	var walk func(x *ssa.BasicBlock)
	walk = func(x *ssa.BasicBlock) {
		for _, p := range x.Preds {
			if !seen[p] {
				seen[p] = true
				walk(p)
			}
		}
	}
	walk(b)
	var out []*ssa.BasicBlock
	for _, x := range tx.fn.Blocks {
		if seen[x] && x != b {
			out = append(out, x)
		}
	}
	return out
}

// ---------- main driver ----------

func (tx *FnTx) baseEnv(cur, old *State) *SpecEnv {
	env := &SpecEnv{tx: tx, vars: map[string]Term{}, locs: map[string]*Loc{}, cur: cur, old: old}
	if tx.fn.Pkg != nil {
		env.pkg = tx.fn.Pkg.Pkg
	} else if tx.fn.Parent() != nil && tx.fn.Parent().Pkg != nil {
		env.pkg = tx.fn.Parent().Pkg.Pkg
	}
	env.paramNames = map[string]bool{}
	for _, p := range tx.fn.Params {
		env.vars[p.Name()] = tx.vals[p]
		env.paramNames[p.Name()] = true
	}
	for _, fv := range tx.fn.FreeVars {
		pt, ok := fv.Type().Underlying().(*types.Pointer)
		if !ok {
			env.vars[fv.Name()] = tx.vals[fv]
			continue
		}
		if tx.privFV[fv] {
			env.locs[fv.Name()] = &Loc{Kind: locLocal, Local: fv, T: pt.Elem()}
		} else if _, isStruct := pt.Elem().Underlying().(*types.Struct); !isStruct {
			env.locs[fv.Name()] = &Loc{Kind: locHeap, Comp: tx.h.cellComp(pt.Elem()), Ref: tx.vals[fv].S, T: pt.Elem()}
		} else {
			env.vars[fv.Name()] = tx.vals[fv]
		}
	}
	for k, v := range tx.lets {
		env.vars[k] = v
	}
	return env
}

func (tx *FnTx) run() (err error) {
	defer func() {
		if r := recover(); r != nil {
			if se, ok := r.(specErr); ok {
				err = fmt.Errorf("%s: %s", tx.key, se.msg)
				return
			}
			panic(r)
		}
	}()
	fn := tx.fn
	if len(fn.Blocks) == 0 {
		return fmt.Errorf("%s has no body", tx.key)
	}
	tx.d.declConst("alloc0", "Int")
	tx.d.declConst("hv0", "Int")
	tx.assume("(> alloc0 0)")
	tx.h.noteEpochAlloc(0, "alloc0")
	st := &State{epoch: 0, heaps: map[string]string{}, alloc: "alloc0", hv: "hv0", locals: map[ssa.Value]Term{}, ghost: map[string]Term{}}
	tx.entry = st
	for _, b := range fn.Blocks {
		for _, in := range b.Instrs {
			if a, ok := in.(*ssa.Alloc); ok && allocIsLocal(a) {
				tx.localAlloc[a] = true
			}
		}
	}
	for _, p := range fn.Params {
		t := tx.define(p, "")
		tx.assumeTyped(t, p.Type(), st)
		tx.recordFnVal(p.Name(), p.Type())
	}
	for i, fv := range fn.FreeVars {
		if freeVarPrivate(fn, i) {
			tx.privFV[fv] = true
			if pt, ok := fv.Type().Underlying().(*types.Pointer); ok {
				l := &Loc{Kind: locLocal, Local: fv, T: pt.Elem()}
				init := tx.h.read(st, l)
				tx.assumeTyped(init, pt.Elem(), st)
				tx.recordFnVal(fv.Name(), pt.Elem())
			}
			continue
		}
		name := "fv_" + sanitize(fv.Name())
		tx.d.declConst(name, tx.d.sortOf(fv.Type()))
		t := Term{S: name, Sort: tx.d.sortOf(fv.Type()), GT: fv.Type()}
		tx.vals[fv] = t
		tx.assumeTyped(t, fv.Type(), st)
		if pt, ok := fv.Type().Underlying().(*types.Pointer); ok {
			tx.recordFnVal(fv.Name(), pt.Elem())
		}
	}
	// captures start as the zero value (no matching call yet)
	if tx.c != nil {
		for _, cp := range tx.c.Captures {
			z := map[string]string{"Iface": "(mk-iface 0 0)", "Int": "0", "Bool": "false", "Slice": "(mk-slice 0 0 0 0)", "Real": "0.0"}[cp.Sort]
			st.ghost["cap!"+cp.Name] = Term{S: z, Sort: cp.Sort}
			st.ghost["capset!"+cp.Name] = Term{S: "false", Sort: "Bool"}
		}
	}
	// private captured cells also need an address value (they may be passed to sync/atomic)
	for fv := range tx.privFV {
		n := "fvaddr_" + sanitize(fv.Name())
		tx.d.declConst(n, "Int")
		tx.vals[fv] = Term{S: n, Sort: "Int", GT: fv.Type()}
	}
	// private map objects (protected from the effects of unknown callees)
	tx.privObj = map[*ssa.FreeVar]*types.Map{}
	for i, fv := range fn.FreeVars {
		if tx.privFV[fv] {
			if mt := privateMapObject(fn, i); mt != nil {
				tx.privObj[fv] = mt
			}
		}
	}
	// function-valued things called dynamically: record their signatures up front (for calls()/callsOn() in invariants)
	for _, b := range fn.Blocks {
		for _, in := range b.Instrs {
			if c, ok := in.(*ssa.Call); ok && !c.Call.IsInvoke() && c.Call.StaticCallee() == nil {
				if _, isB := c.Call.Value.(*ssa.Builtin); !isB {
					tx.recordFnVal(fnValName(c.Call.Value), c.Call.Value.Type())
				}
			}
		}
	}
	// lets and preconditions
	env := tx.baseEnv(st, st)
	if tx.c != nil {
		for _, l := range tx.c.Lets {
			v, err := env.Tr(l.E)
			if err != nil {
				return fmt.Errorf("%s: let %s: %v", tx.key, l.Name, err)
			}
			ln := "let_" + sanitize(l.Name)
			tx.d.declConst(ln, v.Sort)
			tx.assume("(= " + ln + " " + v.S + ")")
			v.S = ln
			tx.lets[l.Name] = v
			env.vars[l.Name] = v
		}
		for _, r := range tx.c.Requires {
			s, err := env.TrBool(r.E)
			if err != nil {
				return fmt.Errorf("%s: requires %s: %v", tx.key, r.Label, err)
			}
			tx.assume(s)
		}
		if tx.instance != "" {
			found := false
			for _, in := range tx.c.Instances {
				if in.Label == tx.instance {
					s, err := env.TrBool(in.E)
					if err != nil {
						return fmt.Errorf("%s: instance %s: %v", tx.key, in.Label, err)
					}
					tx.assume(s)
					found = true
				}
			}
			if !found {
				return fmt.Errorf("%s: no instance %q in the contract", tx.key, tx.instance)
			}
		}
		o := tx.oblige("cover", "pre", "false", "true", "precondition is satisfiable")
		_ = o
	}
	tx.findLoops()
	order := tx.order()
	for _, b := range order {
		tx.execBlock(b)
	}
	tx.finishReturns()
	// a call assertion that found no call site to apply to (the call it speaks about is gone, or the variables it
	// mentions are no longer in scope there) proves nothing about the current body: reported, not silently dropped
	if tx.c != nil {
		for _, ca := range tx.c.CallAsserts {
			if tx.assertSites[ca.Clause.Label] == 0 {
				o := tx.oblige("contract", "site:"+ca.Clause.Label, "false", "true", "the call assertion '"+ca.Clause.Src+"' applies to at least one call site of "+tx.key)
				o.Status = "failed-structural"
				o.Solver = "zv"
				o.Output = "no call matching '" + ca.Pattern + "' at which every identifier of the clause is in scope"
			}
		}
	}
	return nil
}

func (tx *FnTx) recordFnVal(name string, t types.Type) {
	if sig, ok := t.Underlying().(*types.Signature); ok {
		var ps, rs []types.Type
		for i := 0; i < sig.Params().Len(); i++ {
			ps = append(ps, sig.Params().At(i).Type())
		}
		for i := 0; i < sig.Results().Len(); i++ {
			rs = append(rs, sig.Results().At(i).Type())
		}
		tx.fnValSorts[name] = [2][]types.Type{ps, rs}
	}
}

func (tx *FnTx) fnValSlotSort(name string, isArg bool, k string) (string, types.Type) {
	s, ok := tx.fnValSorts[name]
	if !ok {
		return "", nil
	}
	var idx int
	fmt.Sscanf(k, "%d", &idx)
	list := s[1]
	if isArg {
		list = s[0]
	}
	if idx < 0 || idx >= len(list) {
		return "", nil
	}
	return tx.d.sortOf(list[idx]), list[idx]
}

func (tx *FnTx) execBlock(b *ssa.BasicBlock) {
	tx.curBlock = b
	// incoming edges
	var states []*State
	var conds []string
	var preds []*ssa.BasicBlock
	for _, p := range b.Preds {
		if isBackEdge(p, b) {
			continue
		}
		ps, ok := tx.out[p]
		if !ok {
			continue // predecessor not reachable / not processed
		}
		idx := 0
		for k, s := range p.Succs {
			if s == b {
				idx = k
				// if both successors are b, first match is fine
				break
			}
		}
		states = append(states, ps)
		conds = append(conds, tx.edgeCond(p, b, idx))
		preds = append(preds, p)
	}
	rname := fmt.Sprintf("rb%d", b.Index)
	tx.d.declConst(rname, "Bool")
	var st *State
	if b.Index == 0 {
		tx.assume(rname)
		st = tx.entry.clone()
	} else {
		if len(states) == 0 {
			tx.assume(snot(rname))
			tx.reach[b] = rname
			return
		}
		tx.assume("(= " + rname + " " + sor(conds...) + ")")
		st = tx.h.mergeStates(states, conds, tx.assume)
	}
	tx.reach[b] = rname
	tx.curBlock = b
	tx.curReach = rname

	li := tx.loops[b]
	// phis
	for _, in := range b.Instrs {
		ph, ok := in.(*ssa.Phi)
		if !ok {
			break
		}
		srt := tx.d.sortOf(ph.Type())
		if li == nil {
			t := tx.define(ph, "")
			for k, p := range preds {
				// find edge index of p in b.Preds
				for ei, bp := range b.Preds {
					if bp == p {
						tx.assume(simp(conds[k], "(= "+t.S+" "+tx.coerce(tx.val(ph.Edges[ei]), srt).S+")"))
						break
					}
				}
			}
			continue
		}
		// loop header: value on entry
		init := tx.d.fresh(ph.Name()+"_init", srt)
		for k, p := range preds {
			for ei, bp := range b.Preds {
				if bp == p {
					tx.assume(simp(conds[k], "(= "+init+" "+tx.coerce(tx.val(ph.Edges[ei]), srt).S+")"))
					break
				}
			}
		}
		li.phiHead[ph] = Term{S: init, Sort: srt, GT: ph.Type()}
	}
	if li != nil {
		st = tx.enterLoop(li, st)
	}
	for k, in := range b.Instrs {
		if _, ok := in.(*ssa.Phi); ok {
			continue
		}
		tx.curIdx = k
		st = tx.exec(in, st)
		if st == nil {
			return // block terminated (return/panic)
		}
	}
	tx.out[b] = st
	// back edges out of this block
	for k, s := range b.Succs {
		if isBackEdge(b, s) {
			tx.backEdge(b, s, k, st)
		}
	}
}

func (tx *FnTx) coerce(t Term, sort string) Term {
	if t.Sort == sort {
		return t
	}
	if t.Sort == "Int" && sort == "Real" {
		return Term{S: "(to_real " + t.S + ")", Sort: "Real", GT: t.GT}
	}
	return t
}

func (tx *FnTx) loopName(li *loopInfo) string { return fmt.Sprintf("loop%d", li.ordinal) }

func (tx *FnTx) enterLoop(li *loopInfo, pre *State) *State {
	li.pre = pre
	rname := tx.curReach
	// 1. invariants hold on entry
	if li.spec != nil {
		env := tx.baseEnv(pre, tx.entry)
		env.resolve = tx.resolverAt(li.header, li.phiHead, false)
		env.preferLocals = true
		env.loopHead = li.header
		for _, inv := range li.spec.Invariants {
			s, err := env.TrBool(inv.E)
			if err != nil {
				panic(specErr{fmt.Sprintf("%s invariant %s: %v", tx.loopName(li), inv.Label, err)})
			}
			tx.oblige("inv-init", tx.loopName(li)+"."+inv.Label, s, rname, inv.Src)
		}
	}
	// 2. havoc
	head := pre.clone()
	if (li.spec == nil || !li.spec.HasMod) && tx.loopWritesHeap(li) {
		// no modifies clause: everything on the heap is unknown at the loop head
		head = tx.h.havocAll(pre)
		tx.assume("(>= " + head.alloc + " " + pre.alloc + ")")
		li.havocAll = true
		// private map objects keep their content unless the loop body itself updates maps of that type
		mutated := map[string]bool{}
		for bb := range li.body {
			for _, in := range bb.Instrs {
				switch x := in.(type) {
				case *ssa.MapUpdate:
					mutated[types.TypeString(x.Map.Type().Underlying(), nil)] = true
				case *ssa.Call:
					if b, ok := x.Call.Value.(*ssa.Builtin); ok && b.Name() == "delete" {
						mutated[types.TypeString(x.Call.Args[0].Type().Underlying(), nil)] = true
					}
				}
			}
		}
		tx.protectPrivate(pre, head, mutated)
	}
	if li.spec != nil && li.spec.HasMod {
		env := tx.baseEnv(pre, tx.entry)
		env.resolve = tx.resolverAt(li.header, li.phiHead, false)
		env.preferLocals = true
		regs, err := tx.resolveMods(li.spec.Modifies, env, false)
		if err != nil {
			panic(specErr{fmt.Sprintf("%s modifies: %v", tx.loopName(li), err)})
		}
		li.regions = regs
		head = tx.havocRegions(pre, regs)
	}
	// allocation counter may grow inside the loop
	na := tx.d.fresh("alloc_l", "Int")
	tx.assume("(>= " + na + " " + pre.alloc + ")")
	head.alloc = na
	if head.epoch != pre.epoch {
		tx.h.noteEpochAlloc(head.epoch, na)
	}
	// locals stored inside the loop
	for bb := range li.body {
		for _, in := range bb.Instrs {
			if s, ok := in.(*ssa.Store); ok {
				if root := rootAlloc(s.Addr); root != nil {
					if a, ok := root.(*ssa.Alloc); ok && tx.localAlloc[a] {
						if cur, ok := head.locals[a]; ok {
							head.locals[a] = Term{S: tx.d.fresh("lh_"+a.Name(), cur.Sort), Sort: cur.Sort, GT: cur.GT}
						}
					}
					if fv, ok := root.(*ssa.FreeVar); ok && tx.privFV[fv] {
						l := &Loc{Kind: locLocal, Local: fv}
						base := tx.h.readBase(pre, l)
						_ = base
						pt := fv.Type().Underlying().(*types.Pointer)
						srt := tx.d.sortOf(pt.Elem())
						head.locals[fv] = Term{S: tx.d.fresh("lh_"+fv.Name(), srt), Sort: srt, GT: pt.Elem()}
					}
				}
			}
		}
	}
	// ghost call counters may change inside the loop: havoc every ghost touched (conservatively all)
	touched, touchedSorts := tx.ghostsTouchedIn(li)
	for k, g := range head.ghost {
		if touched(k) {
			head.ghost[k] = Term{S: tx.d.fresh("gh_"+k, g.Sort), Sort: g.Sort, GT: g.GT}
		}
	}
	// a ghost that is first mentioned inside the loop is not in the state yet (absent = its entry value): it must be
	// unknown at the loop head too, otherwise the head of an arbitrary iteration would be equated with function entry
	for k, srt := range touchedSorts {
		if _, ok := head.ghost[k]; !ok {
			head.ghost[k] = Term{S: tx.d.fresh("gh_"+k, srt), Sort: srt}
		}
	}
	li.head = head
	// phis get their own constants
	for _, in := range li.header.Instrs {
		ph, ok := in.(*ssa.Phi)
		if !ok {
			break
		}
		t := tx.define(ph, "")
		tx.assumeTyped(t, ph.Type(), head)
		if ph.Comment == "rangeindex" {
			// the hidden index of a range loop starts at -1 and is only ever incremented (by construction of the SSA form)
			tx.assume("(>= " + t.S + " (- 1))")
		}
	}
	// 3. assume invariants
	if li.spec != nil {
		env := tx.baseEnv(head, tx.entry)
		env.resolve = tx.resolverAt(li.header, nil, false)
		env.preferLocals = true
		env.loopHead = li.header
		for _, inv := range li.spec.Invariants {
			s, err := env.TrBool(inv.E)
			if err != nil {
				panic(specErr{fmt.Sprintf("%s invariant %s: %v", tx.loopName(li), inv.Label, err)})
			}
			tx.assumeReach(s)
		}
		if li.spec.Decreases != nil {
			m, err := env.Tr(li.spec.Decreases)
			if err != nil {
				panic(specErr{fmt.Sprintf("%s decreases: %v", tx.loopName(li), err)})
			}
			li.decHead = m.S
		}
	} else {
		tx.note("loop without invariant in " + tx.key + " (" + tx.loopName(li) + "): everything it assigns is unknown afterwards")
	}
	return head
}

// ghostsTouchedIn: which ghost keys may change inside the loop (call traces, captures, ghost_ensures of callees).
func (tx *FnTx) ghostsTouchedIn(li *loopInfo) (func(string) bool, map[string]string) {
	exact := map[string]bool{}
	sorts := map[string]string{}
	prefixes := []string{}
	for bb := range li.body {
		for _, in := range bb.Instrs {
			if nx, ok := in.(*ssa.Next); ok {
				if rg, ok := nx.Iter.(*ssa.Range); ok {
					exact["visited!"+rg.Name()] = true
				}
			}
			call, ok := in.(*ssa.Call)
			if !ok {
				continue
			}
			cc := &call.Call
			if _, isB := cc.Value.(*ssa.Builtin); isB {
				continue
			}
			var desc string
			var c *FnContract
			switch {
			case cc.IsInvoke():
				desc = ifaceKey(cc.Value.Type(), cc.Method.Name())
				c = tx.cs.Fns[desc]
			case cc.StaticCallee() != nil:
				desc = fnKey(cc.StaticCallee())
				c = tx.cs.Fns[desc]
			default:
				n := fnValName(cc.Value)
				desc = "dyn:" + n
				exact["calls!"+n] = true
				exact["callsAt!"+n] = true
				prefixes = append(prefixes, "lastarg!"+n+"!", "lastret!"+n+"!", "lastargAt!"+n+"!", "lastretAt!"+n+"!")
				sorts["calls!"+n] = "Int"
				sorts["callsAt!"+n] = "(Array Int Int)"
				sig := cc.Signature()
				for i := 0; i < sig.Params().Len(); i++ {
					st := tx.d.sortOf(sig.Params().At(i).Type())
					sorts[fmt.Sprintf("lastarg!%s!%d", n, i)] = st
					sorts[fmt.Sprintf("lastargAt!%s!%d", n, i)] = "(Array Int " + st + ")"
				}
				for i := 0; i < sig.Results().Len(); i++ {
					st := tx.d.sortOf(sig.Results().At(i).Type())
					sorts[fmt.Sprintf("lastret!%s!%d", n, i)] = st
					sorts[fmt.Sprintf("lastretAt!%s!%d", n, i)] = "(Array Int " + st + ")"
				}
			}
			if c != nil {
				ids := map[string]bool{}
				for _, g := range c.GhostEns {
					identsIn(g.E, ids)
				}
				for id := range ids {
					exact[id] = true
					if g, ok := tx.cs.Ghosts[id]; ok {
						sorts[id] = g.Sort
					}
				}
			}
			if tx.c != nil {
				for _, cp := range tx.c.Captures {
					if strings.Contains(desc, cp.Pattern) {
						exact["cap!"+cp.Name] = true
						exact["capset!"+cp.Name] = true
					}
				}
			}
		}
	}
	return func(k string) bool {
		if exact[k] {
			return true
		}
		for _, p := range prefixes {
			if strings.HasPrefix(k, p) {
				return true
			}
		}
		return false
	}, sorts
}

// privateMapObject: free variable idx of closure fn is a cell that only ever holds map objects created in the parent
// and used there only as maps (never stored elsewhere or passed on). Returns the map type, or nil.
func privateMapObject(fn *ssa.Function, idx int) *types.Map {
	parent := fn.Parent()
	if parent == nil {
		return nil
	}
	var mt *types.Map
	for _, b := range parent.Blocks {
		for _, in := range b.Instrs {
			mc, ok := in.(*ssa.MakeClosure)
			if !ok || mc.Fn != fn {
				continue
			}
			bind := mc.Bindings[idx]
			pt, ok := bind.Type().Underlying().(*types.Pointer)
			if !ok {
				return nil
			}
			m, ok := pt.Elem().Underlying().(*types.Map)
			if !ok {
				return nil
			}
			mt = m
			for _, r := range *bind.Referrers() {
				st, ok := r.(*ssa.Store)
				if !ok || st.Addr != bind {
					continue
				}
				mk, ok := st.Val.(*ssa.MakeMap)
				if !ok {
					return nil
				}
				for _, mr := range *mk.Referrers() {
					switch y := mr.(type) {
					case *ssa.Store:
						if y != st {
							return nil
						}
					case *ssa.MapUpdate:
						if y.Map != mk {
							return nil
						}
					case *ssa.Lookup, *ssa.Range, *ssa.DebugRef:
					default:
						return nil
					}
				}
			}
		}
	}
	return mt
}

// havocAllP: havoc of everything an unknown callee may touch; private map objects keep their content.
func (tx *FnTx) havocAllP(st *State) *State {
	n := tx.h.havocAll(st)
	tx.assume("(>= " + n.alloc + " " + st.alloc + ")") // the allocation counter only grows
	tx.protectPrivate(st, n, nil)
	return n
}

func (tx *FnTx) protectPrivate(old, n *State, skipTypes map[string]bool) {
	for fv, mt := range tx.privObj {
		if skipTypes != nil && skipTypes[types.TypeString(mt, nil)] {
			continue
		}
		ref := tx.h.readBase(old, &Loc{Kind: locLocal, Local: fv})
		dom, val := tx.mapComps(mt)
		for _, c := range []*Comp{dom, val} {
			n.heaps[c.Name] = sapp("store", tx.h.heapTerm(n, c), ref, sapp("select", tx.h.heapTerm(old, c), ref))
		}
	}
}

// loopAllocAt: allocation counter at the head of the innermost loop containing block b ("" if none).
func (tx *FnTx) loopAllocAt(b *ssa.BasicBlock) string {
	var best *loopInfo
	for _, li := range tx.loops {
		if li.body[b] && li.head != nil {
			if best == nil || len(li.body) < len(best.body) {
				best = li
			}
		}
	}
	if best == nil {
		return ""
	}
	return best.head.alloc
}

// loopWritesHeap: does the loop body contain an instruction that may write non-local memory?
func (tx *FnTx) loopWritesHeap(li *loopInfo) bool {
	for bb := range li.body {
		for _, in := range bb.Instrs {
			switch x := in.(type) {
			case *ssa.Store:
				root := rootAlloc(x.Addr)
				if a, ok := root.(*ssa.Alloc); ok && tx.localAlloc[a] {
					continue
				}
				if fv, ok := root.(*ssa.FreeVar); ok && tx.privFV[fv] {
					continue
				}
				return true
			case *ssa.MapUpdate, *ssa.Go, *ssa.Defer, *ssa.RunDefers, *ssa.Send:
				return true
			case *ssa.Call:
				if b, ok := x.Call.Value.(*ssa.Builtin); ok {
					switch b.Name() {
					case "len", "cap", "min", "max", "print", "println":
						continue
					}
					return true
				}
				if callee := x.Call.StaticCallee(); callee != nil {
					if c := tx.cs.Fns[fnKey(callee)]; c != nil && c.Pure {
						continue
					}
					pp := ""
					if callee.Pkg != nil {
						pp = callee.Pkg.Pkg.Path()
					}
					if noopPkgs[pp] || purePkgs[pp] {
						continue
					}
				} else if x.Call.IsInvoke() {
					if c := tx.cs.Fns[ifaceKey(x.Call.Value.Type(), x.Call.Method.Name())]; c != nil && c.Pure {
						continue
					}
					if mp := x.Call.Method.Pkg(); mp != nil && (noopPkgs[mp.Path()] || purePkgs[mp.Path()]) {
						continue
					}
				}
				return true
			}
		}
	}
	return false
}

func rootAlloc(v ssa.Value) ssa.Value {
	for i := 0; i < 8; i++ {
		switch x := v.(type) {
		case *ssa.FieldAddr:
			v = x.X
		case *ssa.IndexAddr:
			v = x.X
		case *ssa.Alloc:
			return x
		case *ssa.FreeVar:
			return x
		default:
			return nil
		}
	}
	return nil
}

func (tx *FnTx) backEdge(u, h *ssa.BasicBlock, succIdx int, st *State) {
	li := tx.loops[h]
	cond := tx.edgeCond(u, h, succIdx)
	if li.spec == nil {
		// no invariant: body effects must be within what enterLoop havocked; heap writes are checked below
	}
	over := map[*ssa.Phi]Term{}
	ei := -1
	for k, p := range h.Preds {
		if p == u {
			ei = k
		}
	}
	for _, in := range h.Instrs {
		ph, ok := in.(*ssa.Phi)
		if !ok {
			break
		}
		over[ph] = tx.coerce(tx.val(ph.Edges[ei]), tx.d.sortOf(ph.Type()))
	}
	if li.spec != nil {
		env := tx.baseEnv(st, tx.entry)
		env.resolve = tx.resolverAt(h, over, false)
		env.preferLocals = true
		env.loopHead = h
		for _, inv := range li.spec.Invariants {
			s, err := env.TrBool(inv.E)
			if err != nil {
				panic(specErr{fmt.Sprintf("%s invariant %s: %v", tx.loopName(li), inv.Label, err)})
			}
			tx.oblige("inv-pres", fmt.Sprintf("%s.%s@b%d", tx.loopName(li), inv.Label, u.Index), s, cond, inv.Src)
		}
		if li.spec.Decreases != nil {
			m, err := env.Tr(li.spec.Decreases)
			if err != nil {
				panic(specErr{fmt.Sprintf("%s decreases: %v", tx.loopName(li), err)})
			}
			tx.oblige("dec", fmt.Sprintf("%s@b%d", tx.loopName(li), u.Index), sand("(>= "+li.decHead+" 0)", "(< "+m.S+" "+li.decHead+")"), cond, li.spec.DecSrc)
		}
		// per-iteration facts: stated over the values at the end of the iteration (names resolve at the back edge's source
		// block) and, through head(x), the values the iteration started with; not assumed anywhere
		if len(li.spec.BackAsserts) > 0 {
			benv := tx.baseEnv(st, tx.entry)
			benv.resolve = tx.resolverUpTo(u, nil, true, -1)
			benv.preferLocals = true
			benv.loopHead = h
			for _, ba := range li.spec.BackAsserts {
				s, err := benv.TrBool(ba.E)
				if err != nil {
					panic(specErr{fmt.Sprintf("%s backedge assert %s: %v", tx.loopName(li), ba.Label, err)})
				}
				tx.oblige("backedge", fmt.Sprintf("%s.%s@b%d", tx.loopName(li), ba.Label, u.Index), s, cond, ba.Src)
			}
		}
	}
	// frame of the loop body: heap outside the declared regions is unchanged w.r.t. loop entry
	if li.havocAll {
		return
	}
	tx.frameObligations("loopframe", fmt.Sprintf("%s@b%d", tx.loopName(li), u.Index), li.pre, st, li.regions, cond, false)
}

// frameObligations emits one obligation per heap component that may differ between before and after.
func (tx *FnTx) frameObligations(kind, label string, before, after *State, regs []ModRegion, reach string, modAll bool) {
	if modAll {
		return
	}
	names := []string{}
	for k := range tx.h.comps {
		names = append(names, k)
	}
	sort.Strings(names)
	for _, k := range names {
		c := tx.h.comps[k]
		b := tx.h.heapTerm(before, c)
		a := tx.h.heapTerm(after, c)
		if a == b {
			continue
		}
		o := tx.d.fresh("fo", "Int")
		p := tx.d.fresh("fp", "Int")
		goal := frameFormula(c, regs, b, a, before.alloc, false, o, p)
		tx.oblige(kind, label+"."+k, goal, reach, "memory outside the modifies clause is unchanged ("+k+")")
	}
}

func (tx *FnTx) havocRegions(pre *State, regs []ModRegion) *State {
	n := pre.clone()
	touched := map[string]*Comp{}
	for _, r := range regs {
		touched[r.Comp.Name] = r.Comp
	}
	names := []string{}
	for k := range touched {
		names = append(names, k)
	}
	sort.Strings(names)
	for _, k := range names {
		c := touched[k]
		before := tx.h.heapTerm(pre, c)
		// quantifier-free when every region of this component is a single cell or a constant-length range
		qf := true
		for _, r := range regs {
			if r.Comp == c && c.Kind == compElem && (r.ConstLen <= 0 || r.ConstLen > 16) {
				qf = false
			}
		}
		if qf {
			cur := before
			for _, r := range regs {
				if r.Comp != c {
					continue
				}
				if c.Kind == compElem {
					arr := sapp("select", cur, r.Ref)
					for i := 0; i < r.ConstLen; i++ {
						fv := Term{S: tx.d.fresh("hv_"+k, c.VSort), Sort: c.VSort, GT: c.VT}
						tx.assumeTyped(fv, c.VT, pre)
						arr = sapp("store", arr, fmt.Sprintf("(+ %s %d)", r.Lo, i), fv.S)
					}
					cur = sapp("store", cur, r.Ref, arr)
				} else {
					fv := Term{S: tx.d.fresh("hv_"+k, c.VSort), Sort: c.VSort, GT: c.VT}
					if c.VT != nil {
						tx.assumeTyped(fv, c.VT, pre)
					}
					cur = sapp("store", cur, r.Ref, fv.S)
				}
			}
			n.heaps[k] = cur
			continue
		}
		if c.Kind == compElem {
			// object-level stores keep the arrays of untouched objects syntactically identical; inside a touched
			// object only the declared ranges may differ (one quantified constraint per object)
			cur := before
			seen := map[string]bool{}
			for _, r := range regs {
				if r.Comp != c || seen[r.Ref] {
					continue
				}
				seen[r.Ref] = true
				arr := tx.d.fresh("Ah_"+k, "(Array Int "+c.VSort+")")
				tx.nq++
				p := fmt.Sprintf("p_f%d", tx.nq)
				in := []string{}
				for _, r2 := range regs {
					if r2.Comp == c && r2.Ref == r.Ref {
						in = append(in, sand("(<= "+r2.Lo+" "+p+")", "(< "+p+" "+r2.Hi+")"))
					}
				}
				oldArr := sapp("select", cur, r.Ref)
				tx.assume(fmt.Sprintf("(forall ((%s Int)) (! (=> %s (= (select %s %s) (select %s %s))) :pattern ((select %s %s))))", p, snot(sor(in...)), arr, p, oldArr, p, arr, p))
				cur = sapp("store", cur, r.Ref, arr)
			}
			n.heaps[k] = cur
			continue
		}
		after := tx.d.fresh("Hh_"+k, c.sort())
		tx.nq++
		o := fmt.Sprintf("o_f%d", tx.nq)
		p := fmt.Sprintf("p_f%d", tx.nq)
		tx.assume(frameFormula(c, regs, before, after, pre.alloc, true, o, p))
		n.heaps[k] = after
	}
	if len(names) > 0 {
		n.hv = tx.d.fresh("hv", "Int")
	}
	return n
}

// resolveMods evaluates modifies items to regions (in the given env's current state).
func (tx *FnTx) resolveMods(items []ModItem, env *SpecEnv, old bool) ([]ModRegion, error) {
	var out []ModRegion
	for _, it := range items {
		regs, err := tx.resolveMod(it, env)
		if err != nil {
			return nil, fmt.Errorf("%s: %v", it.Src, err)
		}
		out = append(out, regs...)
	}
	return out, nil
}

func (tx *FnTx) resolveMod(it ModItem, env *SpecEnv) (regs []ModRegion, err error) {
	defer func() {
		if r := recover(); r != nil {
			if se, ok := r.(specErr); ok {
				err = fmt.Errorf("%s", se.msg)
				return
			}
			panic(r)
		}
	}()
	switch n := it.E.(type) {
	case *SField:
		// p.f : field cell of struct pointer
		base := env.tr(n.X, false)
		bt, isPtr := derefType(base.GT)
		if !isPtr {
			return nil, fmt.Errorf("modifies %s: base is not a pointer", it.Src)
		}
		obj, path := lookupFieldAnyPkg(bt, n.Name)
		if obj == nil || len(path) != 1 {
			return nil, fmt.Errorf("modifies %s: field not found (or embedded)", it.Src)
		}
		c := tx.h.fieldComp(bt, path[0])
		return []ModRegion{{Comp: c, Ref: base.S}}, nil
	case *SCall:
		if n.Fn == "deref" && len(n.Args) == 1 {
			// deref(p): cell of a pointer to a non-struct, or a named cell (free variable)
			if id, ok := n.Args[0].(*SIdent); ok {
				if l, ok := env.locs[id.Name]; ok && l.Kind == locHeap {
					return []ModRegion{{Comp: l.Comp, Ref: l.Ref}}, nil
				}
			}
			p := env.tr(n.Args[0], false)
			et, isPtr := derefType(p.GT)
			if !isPtr {
				return nil, fmt.Errorf("deref of non-pointer")
			}
			if stt, ok := et.Underlying().(*types.Struct); ok && !isTimeType(et) {
				for i := 0; i < stt.NumFields(); i++ {
					regs = append(regs, ModRegion{Comp: tx.h.fieldComp(et, i), Ref: p.S})
				}
				return regs, nil
			}
			return []ModRegion{{Comp: tx.h.cellComp(et), Ref: p.S}}, nil
		}
	}
	// slice expression or slice value: all of it
	v := env.tr(it.E, false)
	if mt, ok := mapTypeOf(v.GT); ok {
		// a map object: its key set and its values
		dom, val := tx.mapComps(mt)
		return []ModRegion{{Comp: dom, Ref: v.S}, {Comp: val, Ref: v.S}}, nil
	}
	if v.Sort != "Slice" {
		return nil, fmt.Errorf("modifies item must be a slice, slice range, p.f or deref(p)")
	}
	var et types.Type
	if v.GT != nil {
		if sl, ok := v.GT.Underlying().(*types.Slice); ok {
			et = sl.Elem()
		}
	}
	if et == nil {
		return nil, fmt.Errorf("unknown element type")
	}
	c := tx.h.elemComp(et)
	reg := ModRegion{Comp: c, Ref: "(s-obj " + v.S + ")", Lo: "(s-off " + v.S + ")", Hi: "(+ (s-off " + v.S + ") (s-len " + v.S + "))"}
	if sl, ok := it.E.(*SSlice); ok && sl.Hi != nil {
		lo := 0
		okc := true
		if sl.Lo != nil {
			if li, ok := sl.Lo.(*SInt); ok {
				fmt.Sscanf(li.V, "%d", &lo)
			} else {
				okc = false
			}
		}
		if hi, ok := sl.Hi.(*SInt); ok && okc {
			h := 0
			fmt.Sscanf(hi.V, "%d", &h)
			if h > lo {
				reg.ConstLen = h - lo
			}
		}
	}
	return []ModRegion{reg}, nil
}

// ---------- returns ----------

func (tx *FnTx) doReturn(results []Term, st *State) {
	tx.retStates = append(tx.retStates, retPoint{reach: tx.curReach, st: st, results: results, block: tx.curBlock.Index})
}

func (tx *FnTx) finishReturns() {
	if tx.c == nil {
		return
	}
	for _, rp := range tx.retStates {
		tx.oblBlock = rp.block
		tx.curBlock = tx.fn.Blocks[rp.block]
		env := tx.baseEnv(rp.st, tx.entry)
		tx.bindResults(env, rp.results)
		// postconditions may mention local variables: their value at this return point; a local that is not
		// defined on the path to this return is an unconstrained value (the clause must hold for any value)
		rb := tx.fn.Blocks[rp.block]
		inner := tx.resolverAt(rb, nil, true)
		env.resolve = func(name string) (Term, *Loc, bool) {
			if t, l, ok := inner(name); ok {
				return t, l, ok
			}
			if gt := tx.localNamed(name); gt != nil {
				n := fmt.Sprintf("undefLocal_%s_b%d", sanitize(name), rp.block)
				tx.d.declConst(n, tx.d.sortOf(gt))
				return Term{S: n, Sort: tx.d.sortOf(gt), GT: gt}, nil, true
			}
			return Term{}, nil, false
		}
		suffix := ""
		if len(tx.retStates) > 1 {
			suffix = fmt.Sprintf("@b%d", rp.block)
		}
		for _, en := range tx.c.Ensures {
			s, err := env.TrBool(en.E)
			if err != nil {
				panic(specErr{fmt.Sprintf("ensures %s: %v", en.Label, err)})
			}
			tx.oblige("post", en.Label+suffix, s, rp.reach, en.Src)
		}
		if !tx.c.ModAll {
			penv := tx.baseEnv(tx.entry, tx.entry)
			regs, err := tx.resolveMods(tx.c.Modifies, penv, true)
			if err != nil {
				panic(specErr{fmt.Sprintf("modifies: %v", err)})
			}
			if rp.st.epoch != tx.entry.epoch {
				tx.oblige("frame", "havoc"+suffix, "false", rp.reach, "an un-contracted callee may have written arbitrary memory")
			} else {
				tx.frameObligations("frame", "mem"+suffix, tx.entry, rp.st, regs, rp.reach, false)
			}
		}
		tx.oblige("cover", "ret"+suffix, "false", rp.reach, "return point is reachable")
	}
}

// localNamed returns the type of some local variable of the function with this name (nil if none).
func (tx *FnTx) localNamed(name string) types.Type {
	for _, b := range tx.fn.Blocks {
		for _, in := range b.Instrs {
			if dr, ok := in.(*ssa.DebugRef); ok {
				if obj := dr.Object(); obj != nil && obj.Name() == name {
					if v, ok := obj.(*types.Var); ok {
						return v.Type()
					}
				}
			}
		}
	}
	return nil
}

func (tx *FnTx) bindResults(env *SpecEnv, results []Term) {
	sig := tx.fn.Signature
	for i, r := range results {
		env.vars[fmt.Sprintf("result%d", i)] = r
		if i < sig.Results().Len() {
			if n := sig.Results().At(i).Name(); n != "" && n != "_" {
				env.vars[n] = r
			}
		}
	}
	if len(results) == 1 {
		env.vars["result"] = results[0]
	}
}

func (tx *FnTx) inAnyLoop(b *ssa.BasicBlock) bool {
	for _, li := range tx.loops {
		if li.body[b] {
			return true
		}
	}
	return false
}
