package main

// Contract language: lexer, parser and AST for the //@ comment blocks.

import (
	"fmt"
	"os"
	"path/filepath"
	"strings"
	"unicode"
)

// ---------- expression AST ----------

type SExpr interface{ String() string }

type (
	SIdent struct{ Name string }
	SInt   struct{ V string }
	SStr   struct{ V string }
	SBool  struct{ V bool }
	SNil   struct{}
	SUnary struct {
		Op string
		X  SExpr
	}
	SBinary struct {
		Op   string
		X, Y SExpr
	}
	SCond struct{ C, A, B SExpr }
	SCall struct {
		Fn   string
		Args []SExpr
	}
	SMethod struct {
		Recv SExpr
		Name string
		Args []SExpr
	}
	SIndex struct{ X, I SExpr }
	SSlice struct{ X, Lo, Hi SExpr } // Lo/Hi may be nil
	SField struct {
		X    SExpr
		Name string
	}
	SQuant struct {
		Kind   string // forall | exists
		Var    string
		Lo, Hi SExpr // may be nil (unbounded Int)
		Body   SExpr
	}
	SOld struct{ X SExpr }
	SLet struct {
		Name string
		Val  SExpr
		Body SExpr
	}
)

func (e *SIdent) String() string  { return e.Name }
func (e *SInt) String() string    { return e.V }
func (e *SStr) String() string    { return fmt.Sprintf("%q", e.V) }
func (e *SBool) String() string   { return fmt.Sprint(e.V) }
func (e *SNil) String() string    { return "nil" }
func (e *SUnary) String() string  { return e.Op + e.X.String() }
func (e *SBinary) String() string { return "(" + e.X.String() + " " + e.Op + " " + e.Y.String() + ")" }
func (e *SCond) String() string {
	return "(" + e.C.String() + " ? " + e.A.String() + " : " + e.B.String() + ")"
}
func (e *SCall) String() string { return e.Fn + "(" + joinS(e.Args) + ")" }
func (e *SMethod) String() string {
	return e.Recv.String() + "." + e.Name + "(" + joinS(e.Args) + ")"
}
func (e *SIndex) String() string { return e.X.String() + "[" + e.I.String() + "]" }
func (e *SSlice) String() string {
	lo, hi := "", ""
	if e.Lo != nil {
		lo = e.Lo.String()
	}
	if e.Hi != nil {
		hi = e.Hi.String()
	}
	return e.X.String() + "[" + lo + ":" + hi + "]"
}
func (e *SField) String() string { return e.X.String() + "." + e.Name }
func (e *SQuant) String() string {
	if e.Lo != nil {
		return "(" + e.Kind + " " + e.Var + " in " + e.Lo.String() + ".." + e.Hi.String() + " :: " + e.Body.String() + ")"
	}
	return "(" + e.Kind + " " + e.Var + " :: " + e.Body.String() + ")"
}
func (e *SOld) String() string { return "old(" + e.X.String() + ")" }
func (e *SLet) String() string {
	return "(let " + e.Name + " = " + e.Val.String() + " in " + e.Body.String() + ")"
}

func joinS(a []SExpr) string {
	s := []string{}
	for _, x := range a {
		s = append(s, x.String())
	}
	return strings.Join(s, ", ")
}

// ---------- lexer ----------

type tok struct {
	k string // id int str op eof
	v string
}

func lexSpec(src string) ([]tok, error) {
	var out []tok
	i := 0
	for i < len(src) {
		c := src[i]
		switch {
		case c == ' ' || c == '\t' || c == '\n':
			i++
		case unicode.IsLetter(rune(c)) || c == '_' || c == '$':
			j := i + 1
			for j < len(src) && (unicode.IsLetter(rune(src[j])) || unicode.IsDigit(rune(src[j])) || src[j] == '_' || src[j] == '$') {
				j++
			}
			out = append(out, tok{"id", src[i:j]})
			i = j
		case unicode.IsDigit(rune(c)):
			j := i + 1
			for j < len(src) && (unicode.IsDigit(rune(src[j])) || src[j] == '_') {
				j++
			}
			out = append(out, tok{"int", strings.ReplaceAll(src[i:j], "_", "")})
			i = j
		case c == '"':
			j := i + 1
			for j < len(src) && src[j] != '"' {
				j++
			}
			if j >= len(src) {
				return nil, fmt.Errorf("unterminated string in %q", src)
			}
			out = append(out, tok{"str", src[i+1 : j]})
			i = j + 1
		default:
			ops := []string{"<==>", "==>", "::", "..", "==", "!=", "<=", ">=", "&&", "||", "<", ">", "+", "-", "*", "/", "%", "!", "(", ")", "[", "]", ",", ".", "?", ":", "="}
			matched := false
			for _, op := range ops {
				if strings.HasPrefix(src[i:], op) {
					out = append(out, tok{"op", op})
					i += len(op)
					matched = true
					break
				}
			}
			if !matched {
				return nil, fmt.Errorf("bad character %q in %q", c, src)
			}
		}
	}
	out = append(out, tok{"eof", ""})
	return out, nil
}

// ---------- parser ----------

type sparser struct {
	t []tok
	p int
}

func parseSpecExpr(src string) (SExpr, error) {
	t, err := lexSpec(src)
	if err != nil {
		return nil, err
	}
	ps := &sparser{t: t}
	var e SExpr
	func() {
		defer func() {
			if r := recover(); r != nil {
				err = fmt.Errorf("parse error in %q: %v", src, r)
			}
		}()
		e = ps.expr()
		if ps.peek().k != "eof" {
			panic(fmt.Sprintf("unexpected %q", ps.peek().v))
		}
	}()
	return e, err
}

func (p *sparser) peek() tok { return p.t[p.p] }
func (p *sparser) next() tok { t := p.t[p.p]; p.p++; return t }
func (p *sparser) isOp(v string) bool {
	return p.peek().k == "op" && p.peek().v == v
}
func (p *sparser) isID(v string) bool {
	return p.peek().k == "id" && p.peek().v == v
}
func (p *sparser) expect(v string) {
	if !p.isOp(v) {
		panic(fmt.Sprintf("expected %q, got %q", v, p.peek().v))
	}
	p.p++
}

func (p *sparser) expr() SExpr {
	return p.implies()
}

// quantOrLet parses forall/exists/let starting at the keyword (already peeked); the body extends as far right as possible.
func (p *sparser) quantOrLet() SExpr {
	if p.isID("forall") || p.isID("exists") {
		kind := p.next().v
		v := p.next()
		if v.k != "id" {
			panic("quantifier variable expected")
		}
		q := &SQuant{Kind: kind, Var: v.v}
		if p.isID("in") {
			p.next()
			q.Lo = p.additive()
			p.expect("..")
			q.Hi = p.additive()
		}
		p.expect("::")
		q.Body = p.expr()
		return q
	}
	p.next() // let
	v := p.next()
	p.expect("=")
	val := p.cond()
	if !p.isID("in") {
		panic("expected 'in' after let binding")
	}
	p.next()
	body := p.expr()
	return &SLet{Name: v.v, Val: val, Body: body}
}

func (p *sparser) implies() SExpr {
	l := p.cond()
	if p.isOp("==>") {
		p.next()
		r := p.expr() // right assoc, allows quantifier on the right
		return &SBinary{"==>", l, r}
	}
	if p.isOp("<==>") {
		p.next()
		r := p.cond()
		return &SBinary{"<==>", l, r}
	}
	return l
}

func (p *sparser) cond() SExpr {
	c := p.or()
	if p.isOp("?") {
		p.next()
		a := p.cond()
		p.expect(":")
		b := p.cond()
		return &SCond{c, a, b}
	}
	return c
}

func (p *sparser) or() SExpr {
	l := p.and()
	for p.isOp("||") {
		p.next()
		r := p.and()
		l = &SBinary{"||", l, r}
	}
	return l
}

func (p *sparser) and() SExpr {
	l := p.cmp()
	for p.isOp("&&") {
		p.next()
		r := p.cmp()
		l = &SBinary{"&&", l, r}
	}
	return l
}

func (p *sparser) cmp() SExpr {
	l := p.additive()
	for {
		t := p.peek()
		if t.k == "op" && (t.v == "==" || t.v == "!=" || t.v == "<" || t.v == "<=" || t.v == ">" || t.v == ">=") {
			p.next()
			r := p.additive()
			l = &SBinary{t.v, l, r}
			continue
		}
		return l
	}
}

func (p *sparser) additive() SExpr {
	l := p.mul()
	for p.isOp("+") || p.isOp("-") {
		op := p.next().v
		r := p.mul()
		l = &SBinary{op, l, r}
	}
	return l
}

func (p *sparser) mul() SExpr {
	l := p.unary()
	for p.isOp("*") || p.isOp("/") || p.isOp("%") {
		op := p.next().v
		r := p.unary()
		l = &SBinary{op, l, r}
	}
	return l
}

func (p *sparser) unary() SExpr {
	if p.isOp("!") {
		p.next()
		return &SUnary{"!", p.unary()}
	}
	if p.isOp("-") {
		p.next()
		return &SUnary{"-", p.unary()}
	}
	return p.postfix()
}

func (p *sparser) args() []SExpr {
	var a []SExpr
	if p.isOp(")") {
		p.next()
		return a
	}
	for {
		a = append(a, p.expr())
		if p.isOp(",") {
			p.next()
			continue
		}
		p.expect(")")
		return a
	}
}

func (p *sparser) postfix() SExpr {
	e := p.primary()
	for {
		switch {
		case p.isOp("."):
			p.next()
			n := p.next()
			if n.k != "id" {
				panic("field name expected")
			}
			if p.isOp("(") {
				p.next()
				e = &SMethod{e, n.v, p.args()}
			} else {
				e = &SField{e, n.v}
			}
		case p.isOp("["):
			p.next()
			var lo SExpr
			if !p.isOp(":") {
				lo = p.expr()
			}
			if p.isOp(":") {
				p.next()
				var hi SExpr
				if !p.isOp("]") {
					hi = p.expr()
				}
				p.expect("]")
				e = &SSlice{e, lo, hi}
			} else {
				p.expect("]")
				e = &SIndex{e, lo}
			}
		default:
			return e
		}
	}
}

func (p *sparser) primary() SExpr {
	if p.isID("forall") || p.isID("exists") || p.isID("let") {
		return p.quantOrLet()
	}
	t := p.next()
	switch t.k {
	case "int":
		return &SInt{t.v}
	case "str":
		return &SStr{t.v}
	case "id":
		switch t.v {
		case "true":
			return &SBool{true}
		case "false":
			return &SBool{false}
		case "nil":
			return &SNil{}
		case "old":
			p.expect("(")
			e := p.expr()
			p.expect(")")
			return &SOld{e}
		}
		if p.isOp("(") {
			p.next()
			return &SCall{t.v, p.args()}
		}
		return &SIdent{t.v}
	case "op":
		if t.v == "(" {
			e := p.expr()
			p.expect(")")
			return e
		}
	}
	panic(fmt.Sprintf("unexpected token %q", t.v))
}

// ---------- contracts ----------

type Clause struct {
	Label string
	Src   string
	E     SExpr
}

type ModItem struct {
	Src string
	E   SExpr // SSlice (range of a slice), SUnary{"*",x} encoded as SCall{"deref"}, SField, SIdent "*all*"
}

type LoopSpec struct {
	Ordinal     int
	BackAsserts []Clause // asserted at every back edge (per-iteration facts; head(x) = value of x when the iteration began)
	Invariants  []Clause
	Modifies    []ModItem
	HasMod      bool
	Decreases   SExpr
	DecSrc      string
}

type CallAssert struct {
	Pattern string
	When    string // "before" | "after"
	InScope bool   // "inscope": applies only at the call sites where all its identifiers are in scope
	Clause  Clause
}

type FnContract struct {
	Key    string // e.g. "encoding.(Sequence).Truncate", "encoding.RoundTimeUp", "core.(*limit).Iterate$1"
	Pkg    string // short package dir ("encoding", "." for root)
	File   string
	Line   int
	Extern bool     // assumed contract on a dependency (trusted)
	Iface  bool     // contract of an interface method
	Params []string // for extern/interface: explicit parameter names (receiver first as "this")
	Lets   []struct {
		Name string
		E    SExpr
		Src  string
	}
	Requires    []Clause
	Ensures     []Clause
	GhostEns    []Clause // assumed at call sites, not checked in the body (definitional ghost updates)
	Modifies    []ModItem
	HasMod      bool
	ModAll      bool
	Pure        bool
	PureHeap    bool
	NoPanic     bool
	NoPanicOwn  bool // safety obligations for the function's own instructions only; callee panics are assumptions
	Sweep       bool // implicit contract created by the no-panic sweep
	Loops       map[int]*LoopSpec
	CallAsserts []CallAssert
	Asserts     []CallAssert // reserved
	Covers      []Clause
	Captures    []Capture
	NoReturn    map[string]bool      // function values whose calls are assumed never to return
	Callbacks   map[string][]ModItem // assumed frame of calls through a function-typed parameter (trusted): name -> modifies items over callarg0..n
	Instances   []Clause             // bounded stand-ins: extra entry assumptions fixing some parameters (label = instance name)
	Props       []string             // property ids this contract serves (informational)
	Used        bool
}

// Capture binds a ghost name to result K of every call matching Pattern (also when the code discards it).
type Capture struct {
	Name, Sort, Pattern string
	K                   int
}

type Define struct {
	Name   string
	Params []string
	Body   SExpr
	Src    string
}

type Lemma struct {
	Name string
	Pkg  string
	Src  string
	E    SExpr
	Vars []struct{ Name, Sort string }
}

type GhostVar struct {
	Name string
	Sort string
}

type ConstGlobal struct {
	Name string
	Pkg  string
	Inv  Clause
}

type Contracts struct {
	ConstGlobals map[string]*ConstGlobal // key: pkgKey + "." + name
	Fns          map[string]*FnContract
	Order        []string
	Defines      map[string]*Define
	Lemmas       []*Lemma
	Ghosts       map[string]*GhostVar
	UFs          map[string]*UFDecl
	Files        []string
	Source       map[string]string // pkg -> "/repo" or "mirror"
}

type UFDecl struct {
	Name string
	Args []string
	Ret  string
}

var clauseKeywords = map[string]bool{
	"func": true, "extern": true, "interface": true, "requires": true, "ensures": true, "let": true,
	"modifies": true, "nopanic": true, "pure": true, "pureheap": true, "loop": true, "at": true, "ghost": true,
	"define": true, "lemma": true, "const_global": true, "capture": true, "instance": true, "callback": true, "ghost_ensures": true, "cover": true, "props": true, "uf": true, "params": true,
}

// parseContractFile reads the //@ lines of one file.
func (cs *Contracts) parseContractFile(path string, pkg string) error {
	data, err := os.ReadFile(path)
	if err != nil {
		return err
	}
	type ln struct {
		n    int
		text string
	}
	var lines []ln
	for i, raw := range strings.Split(string(data), "\n") {
		s := strings.TrimSpace(raw)
		var body string
		if strings.HasPrefix(s, "//@") {
			body = s[3:]
		} else if strings.HasPrefix(s, "// @") {
			body = s[4:]
		} else {
			continue
		}
		// strip trailing comments introduced by " //"
		if k := strings.Index(body, " //"); k >= 0 {
			body = body[:k]
		}
		if strings.TrimSpace(body) == "" {
			continue
		}
		first := strings.Fields(body)[0]
		if !clauseKeywords[first] && len(lines) > 0 {
			lines[len(lines)-1].text += " " + strings.TrimSpace(body)
			continue
		}
		lines = append(lines, ln{i + 1, strings.TrimSpace(body)})
	}
	var cur *FnContract
	for _, l := range lines {
		fs := strings.Fields(l.text)
		kw := fs[0]
		rest := strings.TrimSpace(l.text[len(kw):])
		fail := func(err error) error {
			return fmt.Errorf("%s:%d: %v", path, l.n, err)
		}
		mustExpr := func(src string) (SExpr, error) {
			e, err := parseSpecExpr(src)
			if err != nil {
				return nil, fail(err)
			}
			return e, nil
		}
		labelled := func(src string) (Clause, error) {
			label := ""
			if k := strings.Index(src, ":"); k > 0 {
				cand := strings.TrimSpace(src[:k])
				if isIdent(cand) && !strings.HasPrefix(src[k:], "::") {
					label = cand
					src = strings.TrimSpace(src[k+1:])
				}
			}
			e, err := mustExpr(src)
			if err != nil {
				return Clause{}, err
			}
			return Clause{Label: label, Src: src, E: e}, nil
		}
		switch kw {
		case "func", "extern", "interface":
			name := rest
			cur = &FnContract{Pkg: pkg, File: path, Line: l.n, Loops: map[int]*LoopSpec{}}
			if kw == "extern" {
				cur.Extern = true
				name = strings.TrimSpace(strings.TrimPrefix(rest, "func"))
				cur.Key = name
			} else if kw == "interface" {
				cur.Iface = true
				// interface Expr.Merge
				cur.Key = "iface." + pkgKey(pkg) + "." + name
			} else if strings.HasPrefix(name, "(*") {
				cur.Key = "(*" + pkgKey(pkg) + "." + name[2:]
			} else if strings.HasPrefix(name, "(") {
				cur.Key = "(" + pkgKey(pkg) + "." + name[1:]
			} else {
				cur.Key = pkgKey(pkg) + "." + name
			}
			if _, dup := cs.Fns[cur.Key]; dup {
				return fail(fmt.Errorf("duplicate contract for %s", cur.Key))
			}
			cs.Fns[cur.Key] = cur
			cs.Order = append(cs.Order, cur.Key)
		case "params":
			if cur == nil {
				return fail(fmt.Errorf("params outside func"))
			}
			for _, p := range strings.Split(rest, ",") {
				cur.Params = append(cur.Params, strings.TrimSpace(p))
			}
		case "props":
			if cur != nil {
				cur.Props = append(cur.Props, strings.Fields(strings.ReplaceAll(rest, ",", " "))...)
			}
		case "requires":
			c, err := labelled(rest)
			if err != nil {
				return err
			}
			if c.Label == "" {
				c.Label = fmt.Sprintf("r%d", len(cur.Requires))
			}
			cur.Requires = append(cur.Requires, c)
		case "ensures":
			c, err := labelled(rest)
			if err != nil {
				return err
			}
			if c.Label == "" {
				c.Label = fmt.Sprintf("e%d", len(cur.Ensures))
			}
			cur.Ensures = append(cur.Ensures, c)
		case "ghost_ensures":
			c, err := labelled(rest)
			if err != nil {
				return err
			}
			cur.GhostEns = append(cur.GhostEns, c)
		case "cover":
			c, err := labelled(rest)
			if err != nil {
				return err
			}
			cur.Covers = append(cur.Covers, c)
		case "let":
			k := strings.Index(rest, "=")
			if k < 0 {
				return fail(fmt.Errorf("let without ="))
			}
			e, err := mustExpr(rest[k+1:])
			if err != nil {
				return err
			}
			cur.Lets = append(cur.Lets, struct {
				Name string
				E    SExpr
				Src  string
			}{strings.TrimSpace(rest[:k]), e, rest[k+1:]})
		case "modifies":
			items, all, err := parseModifies(rest)
			if err != nil {
				return fail(err)
			}
			cur.HasMod = true
			cur.ModAll = cur.ModAll || all
			cur.Modifies = append(cur.Modifies, items...)
		case "callback":
			// callback <name> modifies <items over callarg0..n>
			if len(fs) == 3 && fs[2] == "noreturn" {
				// calls through this function value never return normally (trusted), e.g. a configured panic handler
				if cur.NoReturn == nil {
					cur.NoReturn = map[string]bool{}
				}
				cur.NoReturn[fs[1]] = true
				continue
			}
			if len(fs) < 4 || fs[2] != "modifies" {
				return fail(fmt.Errorf("bad callback clause (callback <name> modifies <items> | callback <name> noreturn)"))
			}
			k := strings.Index(rest, "modifies")
			items, _, err := parseModifies(strings.TrimSpace(rest[k+len("modifies"):]))
			if err != nil {
				return fail(err)
			}
			if cur.Callbacks == nil {
				cur.Callbacks = map[string][]ModItem{}
			}
			cur.Callbacks[fs[1]] = items
		case "instance":
			c, err := labelled(rest)
			if err != nil {
				return err
			}
			cur.Instances = append(cur.Instances, c)
		case "capture":
			// capture name Sort = result K of call Pattern
			if len(fs) != 9 || fs[3] != "=" || fs[4] != "result" || fs[6] != "of" || fs[7] != "call" {
				return fail(fmt.Errorf("bad capture clause (capture name Sort = result K of call Pattern)"))
			}
			k := 0
			fmt.Sscanf(fs[5], "%d", &k)
			cur.Captures = append(cur.Captures, Capture{Name: fs[1], Sort: fs[2], Pattern: fs[8], K: k})
		case "nopanic":
			cur.NoPanic = true
			if rest == "own" {
				cur.NoPanicOwn = true
			}
		case "pure":
			cur.Pure = true
		case "pureheap":
			cur.Pure = true
			cur.PureHeap = true
		case "loop":
			// loop <n> invariant|modifies|decreases ...
			if len(fs) < 3 {
				return fail(fmt.Errorf("bad loop clause"))
			}
			var n int
			if _, err := fmt.Sscanf(fs[1], "%d", &n); err != nil {
				return fail(fmt.Errorf("bad loop ordinal %q", fs[1]))
			}
			ls := cur.Loops[n]
			if ls == nil {
				ls = &LoopSpec{Ordinal: n}
				cur.Loops[n] = ls
			}
			body := strings.TrimSpace(rest[len(fs[1]):])
			body = strings.TrimSpace(body[len(fs[2]):])
			switch fs[2] {
			case "invariant":
				c, err := labelled(body)
				if err != nil {
					return err
				}
				if c.Label == "" {
					c.Label = fmt.Sprintf("i%d", len(ls.Invariants))
				}
				ls.Invariants = append(ls.Invariants, c)
			case "modifies":
				items, _, err := parseModifies(body)
				if err != nil {
					return fail(err)
				}
				ls.HasMod = true
				ls.Modifies = append(ls.Modifies, items...)
			case "backedge":
				// loop <n> backedge assert <label>: expr
				b2 := strings.TrimSpace(strings.TrimPrefix(body, "assert"))
				c, err := labelled(b2)
				if err != nil {
					return err
				}
				if c.Label == "" {
					c.Label = fmt.Sprintf("b%d", len(ls.BackAsserts))
				}
				ls.BackAsserts = append(ls.BackAsserts, c)
			case "decreases":
				e, err := mustExpr(body)
				if err != nil {
					return err
				}
				ls.Decreases = e
				ls.DecSrc = body
			default:
				return fail(fmt.Errorf("bad loop clause kind %q", fs[2]))
			}
		case "at":
			// at call <pattern> [after] [inscope] assert <label>: expr
			if len(fs) < 5 || fs[1] != "call" {
				return fail(fmt.Errorf("bad at clause"))
			}
			pat := fs[2]
			k := strings.Index(rest, " assert ")
			if k < 0 {
				return fail(fmt.Errorf("at clause without assert"))
			}
			c, err := labelled(strings.TrimSpace(rest[k+8:]))
			if err != nil {
				return err
			}
			when := "before"
			if strings.Contains(rest[:k], " after") {
				when = "after"
			}
			if c.Label == "" {
				c.Label = fmt.Sprintf("a%d", len(cur.CallAsserts))
			}
			inScope := strings.Contains(rest[:k]+" ", " inscope ")
			cur.CallAsserts = append(cur.CallAsserts, CallAssert{Pattern: pat, When: when, InScope: inScope, Clause: c})
		case "const_global":
			c, err := labelled(rest)
			if err != nil {
				return err
			}
			cs.ConstGlobals[pkgKey(pkg)+"."+c.Label] = &ConstGlobal{Name: c.Label, Pkg: pkg, Inv: c}
		case "ghost":
			// ghost var name Sort
			if len(fs) != 4 || fs[1] != "var" {
				return fail(fmt.Errorf("bad ghost decl"))
			}
			cs.Ghosts[fs[2]] = &GhostVar{Name: fs[2], Sort: fs[3]}
		case "uf":
			// uf name(Sort, Sort) Sort
			op := strings.Index(rest, "(")
			cp := strings.LastIndex(rest, ")")
			if op < 0 || cp < op {
				return fail(fmt.Errorf("bad uf decl"))
			}
			u := &UFDecl{Name: strings.TrimSpace(rest[:op]), Ret: strings.TrimSpace(rest[cp+1:])}
			for _, a := range strings.Split(rest[op+1:cp], ",") {
				if strings.TrimSpace(a) != "" {
					u.Args = append(u.Args, strings.TrimSpace(a))
				}
			}
			cs.UFs[u.Name] = u
		case "define":
			k := strings.Index(rest, "=")
			op := strings.Index(rest, "(")
			cp := strings.Index(rest, ")")
			if k < 0 || op < 0 || cp < op || cp > k {
				return fail(fmt.Errorf("bad define"))
			}
			d := &Define{Name: strings.TrimSpace(rest[:op]), Src: rest}
			for _, a := range strings.Split(rest[op+1:cp], ",") {
				if strings.TrimSpace(a) != "" {
					d.Params = append(d.Params, strings.TrimSpace(a))
				}
			}
			e, err := mustExpr(rest[k+1:])
			if err != nil {
				return err
			}
			d.Body = e
			cs.Defines[d.Name] = d
		case "lemma":
			// lemma name(x Int, y Real): expr
			k := strings.Index(rest, ":")
			for k >= 0 && strings.HasPrefix(rest[k:], "::") {
				k2 := strings.Index(rest[k+2:], ":")
				if k2 < 0 {
					k = -1
				} else {
					k = k + 2 + k2
				}
			}
			if k < 0 {
				return fail(fmt.Errorf("bad lemma"))
			}
			head := strings.TrimSpace(rest[:k])
			lm := &Lemma{Pkg: pkg, Src: strings.TrimSpace(rest[k+1:])}
			if op := strings.Index(head, "("); op >= 0 {
				lm.Name = strings.TrimSpace(head[:op])
				for _, a := range strings.Split(strings.TrimSuffix(head[op+1:], ")"), ",") {
					f := strings.Fields(a)
					if len(f) == 2 {
						lm.Vars = append(lm.Vars, struct{ Name, Sort string }{f[0], f[1]})
					}
				}
			} else {
				lm.Name = head
			}
			e, err := mustExpr(lm.Src)
			if err != nil {
				return err
			}
			lm.E = e
			cs.Lemmas = append(cs.Lemmas, lm)
		default:
			return fail(fmt.Errorf("unknown clause %q", kw))
		}
	}
	cs.Files = append(cs.Files, path)
	return nil
}

func pkgKey(pkg string) string {
	if pkg == "." || pkg == "" {
		return "zenodb"
	}
	return pkg
}

func isIdent(s string) bool {
	if s == "" {
		return false
	}
	for i, r := range s {
		if !(unicode.IsLetter(r) || r == '_' || (i > 0 && unicode.IsDigit(r))) {
			return false
		}
	}
	return true
}

func parseModifies(src string) ([]ModItem, bool, error) {
	src = strings.TrimSpace(src)
	if src == "*" {
		return nil, true, nil
	}
	if src == "" || src == "nothing" {
		return nil, false, nil
	}
	var items []ModItem
	depth := 0
	start := 0
	parts := []string{}
	for i, c := range src {
		switch c {
		case '(', '[':
			depth++
		case ')', ']':
			depth--
		case ',':
			if depth == 0 {
				parts = append(parts, src[start:i])
				start = i + 1
			}
		}
	}
	parts = append(parts, src[start:])
	for _, p := range parts {
		p = strings.TrimSpace(p)
		e, err := parseSpecExpr(p)
		if err != nil {
			return nil, false, err
		}
		items = append(items, ModItem{Src: p, E: e})
	}
	return items, false, nil
}

// contract files: /repo/<pkg>/zz_contracts_verif.go, fallback /verif/contracts/<pkg>.go
func loadContracts(repoDir, mirrorDir string, pkgs []string) (*Contracts, error) {
	cs := &Contracts{ConstGlobals: map[string]*ConstGlobal{}, Fns: map[string]*FnContract{}, Defines: map[string]*Define{}, Ghosts: map[string]*GhostVar{}, UFs: map[string]*UFDecl{}, Source: map[string]string{}}
	// shared prelude + dependency contracts live in the mirror only
	for _, f := range []string{"prelude.spec", "deps.spec"} {
		p := filepath.Join(mirrorDir, f)
		if _, err := os.Stat(p); err == nil {
			if err := cs.parseContractFile(p, "deps"); err != nil {
				return nil, err
			}
		}
	}
	for _, pkg := range pkgs {
		p := filepath.Join(repoDir, pkg, "zz_contracts_verif.go")
		src := "/repo"
		if _, err := os.Stat(p); err != nil {
			name := strings.ReplaceAll(pkgKey(pkg), "/", "_") + ".go"
			p = filepath.Join(mirrorDir, name)
			src = "mirror"
			if _, err := os.Stat(p); err != nil {
				continue
			}
		}
		cs.Source[pkg] = src
		if err := cs.parseContractFile(p, pkg); err != nil {
			return nil, err
		}
	}
	return cs, nil
}
