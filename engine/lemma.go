package main

// Lemmas (closed formulas over spec functions) and structural obligations (mechanical enumerations).

import (
	"fmt"
	"go/constant"
	"sort"
	"strings"

	"golang.org/x/tools/go/ssa"
)

func (s *Session) dummyTx(name string) *FnTx {
	d := newDecls()
	tx := &FnTx{ld: s.ld, prog: s.ld.Prog, cs: s.cs, key: name, d: d,
		h:    &HeapEnv{d: d, comps: map[string]*Comp{}},
		vals: map[ssa.Value]Term{}, locs: map[ssa.Value]*Loc{}, tuples: map[ssa.Value][]Term{},
		lets: map[string]Term{}, globals: map[*ssa.Global]int{}, ncall: map[string]int{}, nsafe: map[string]int{},
		notes: map[string]int{}}
	d.declConst("alloc0", "Int")
	d.declConst("hv0", "Int")
	tx.entry = &State{epoch: 0, heaps: map[string]string{}, alloc: "alloc0", hv: "hv0", locals: map[ssa.Value]Term{}, ghost: map[string]Term{}}
	return tx
}

func (s *Session) lemmaObligation(name string) (*Obligation, error) {
	for _, lm := range s.cs.Lemmas {
		if lm.Name != name {
			continue
		}
		tx := s.dummyTx("lemma")
		env := &SpecEnv{tx: tx, vars: map[string]Term{}, locs: map[string]*Loc{}, cur: tx.entry, old: tx.entry}
		if p := s.ld.PPkgs[pkgPath(lm.Pkg)]; p != nil {
			env.pkg = p.Types
		}
		for _, v := range lm.Vars {
			n := "lv_" + sanitize(v.Name)
			tx.d.declConst(n, v.Sort)
			env.vars[v.Name] = Term{S: n, Sort: v.Sort}
		}
		g, err := env.TrBool(lm.E)
		if err != nil {
			return nil, fmt.Errorf("lemma %s: %v", name, err)
		}
		o := &Obligation{Name: "lemma:" + name, Fn: "lemma", Kind: "lemma", Label: name, Goal: g, Reach: "true", NAssume: len(tx.assumes), Src: lm.Src, tx: tx, Block: -1}
		return o, nil
	}
	return nil, fmt.Errorf("lemma %s not found in the contract files", name)
}

func (s *Session) structural(name string) ([]*Obligation, error) {
	if f, ok := structuralChecks[name]; ok {
		return f(s)
	}
	return nil, fmt.Errorf("unknown structural obligation %s", name)
}

var structuralChecks = map[string]func(*Session) ([]*Obligation, error){}

// structObl makes an already-decided obligation (decided by enumeration over the SSA program, not by a solver).
func structObl(name, src string, ok bool, detail string) *Obligation {
	o := &Obligation{Name: "struct:" + name, Fn: "structural", Kind: "struct", Label: name, Src: src, Solver: "enumeration"}
	if ok {
		o.Status = "proved"
	} else {
		o.Status = "failed-structural"
		o.Output = detail
	}
	return o
}

// web_routes: every HTTP route registered by web.Configure is served by a handler from a fixed list: handlers whose
// contracts prove that authenticate dominates every data-serving call (sqlQuery, cachedQuery, index, metrics), thin
// delegates whose only call is to one of those (asyncQuery, immediateQuery, runQuery -> sqlQuery), and the two handlers
// the property exempts (insert: accepts data, discloses none; oauthCode: the OAuth callback itself).
func init() {
	structuralChecks["web_routes"] = func(s *Session) ([]*Obligation, error) {
		fn := s.fns["web.Configure"]
		if fn == nil {
			return nil, fmt.Errorf("contract target missing: web.Configure")
		}
		verified := map[string]bool{"sqlQuery": true, "cachedQuery": true, "index": true, "metrics": true}
		delegates := map[string]string{"asyncQuery": "sqlQuery", "immediateQuery": "sqlQuery", "runQuery": "sqlQuery"}
		exempt := map[string]bool{"insert": true, "oauthCode": true}
		var out []*Obligation
		seen := map[string]bool{}
		for _, b := range fn.Blocks {
			for _, in := range b.Instrs {
				mc, ok := in.(*ssa.MakeClosure)
				if !ok {
					continue
				}
				f, ok := mc.Fn.(*ssa.Function)
				if !ok || !strings.HasSuffix(f.Name(), "$bound") {
					continue
				}
				name := strings.TrimSuffix(f.Name(), "$bound")
				if seen[name] {
					continue
				}
				seen[name] = true
				switch {
				case verified[name] || exempt[name]:
					out = append(out, structObl("web_routes."+name, "route handler "+name+" is under an authentication-dominance contract or exempt by the property", true, ""))
				case delegates[name] != "":
					// the delegate's only repo call must be its target
					target := delegates[name]
					okDel := true
					detail := ""
					if df := s.fns["(*web.handler)."+name]; df != nil {
						for _, bb := range df.Blocks {
							for _, ii := range bb.Instrs {
								if c, ok := ii.(*ssa.Call); ok {
									if callee := c.Call.StaticCallee(); callee == nil || callee.Name() != target {
										okDel = false
										detail = name + " calls something other than " + target
									}
								}
							}
						}
					} else {
						okDel = false
						detail = "handler body not found"
					}
					out = append(out, structObl("web_routes."+name, "route handler "+name+" only delegates to "+target, okDel, detail))
				default:
					out = append(out, structObl("web_routes."+name, "route handler "+name+" is under an authentication-dominance contract or exempt by the property", false, "handler "+name+" is registered as a route but is neither verified, a delegate, nor exempt"))
				}
			}
		}
		if len(out) < 6 {
			return nil, fmt.Errorf("web_routes: only %d route handlers found in web.Configure (expected at least 6): enumeration broken", len(out))
		}
		return out, nil
	}
}

// goroutine_private_captures (packages planner and core): a goroutine started inside a loop must not capture, by
// reference, a variable that lives across iterations and that the loop assigns - the goroutines of different iterations
// would then share it (under the module's pre-1.22 language version range variables are exactly such cells). This is the
// ownership condition behind "each IN-subquery's goroutine runs its own plan and stores its own result" (C08): the
// captured cells of a goroutine are either allocated in the iteration that starts it, or never written in the loop.
func init() {
	structuralChecks["goroutine_private_captures"] = func(s *Session) ([]*Obligation, error) {
		var out []*Obligation
		keys := []string{}
		for k := range s.fns {
			keys = append(keys, k)
		}
		sort.Strings(keys)
		nGo := 0
		for _, k := range keys {
			fn := s.fns[k]
			if fn == nil || len(fn.Blocks) == 0 || !(strings.HasPrefix(k, "planner.") || strings.HasPrefix(k, "(*planner.")) {
				continue
			}
			loops := naturalLoops(fn)
			for _, b := range fn.Blocks {
				for _, in := range b.Instrs {
					g, ok := in.(*ssa.Go)
					if !ok {
						continue
					}
					nGo++
					mc, ok := g.Call.Value.(*ssa.MakeClosure)
					if !ok {
						continue
					}
					okAll := true
					detail := ""
					for _, bind := range mc.Bindings {
						a, ok := bind.(*ssa.Alloc)
						if !ok {
							continue
						}
						for _, body := range loops {
							if !body[b] || body[a.Block()] {
								continue
							}
							// allocated outside a loop that contains the go statement: any store inside that loop is shared
							for bb := range body {
								for _, ii := range bb.Instrs {
									if st, ok := ii.(*ssa.Store); ok && st.Addr == a {
										okAll = false
										detail = fmt.Sprintf("variable %s is captured by reference by a goroutine started in a loop of %s and assigned in that loop", a.Comment, k)
									}
								}
							}
						}
					}
					out = append(out, structObl(fmt.Sprintf("goroutine_private_captures.%s@%d", k, len(out)), "the goroutine's captured variables are private to the iteration that starts it", okAll, detail))
				}
			}
		}
		if nGo == 0 {
			return nil, fmt.Errorf("goroutine_private_captures: no go statement found in package planner: enumeration broken")
		}
		return out, nil
	}
}

// naturalLoops returns the bodies of the natural loops of fn (one per back edge target, merged).
func naturalLoops(fn *ssa.Function) []map[*ssa.BasicBlock]bool {
	bodies := map[*ssa.BasicBlock]map[*ssa.BasicBlock]bool{}
	for _, b := range fn.Blocks {
		for _, p := range b.Preds {
			if !isBackEdge(p, b) {
				continue
			}
			body := bodies[b]
			if body == nil {
				body = map[*ssa.BasicBlock]bool{b: true}
				bodies[b] = body
			}
			var stack []*ssa.BasicBlock
			if !body[p] {
				body[p] = true
				stack = append(stack, p)
			}
			for len(stack) > 0 {
				x := stack[len(stack)-1]
				stack = stack[:len(stack)-1]
				for _, q := range x.Preds {
					if !body[q] {
						body[q] = true
						stack = append(stack, q)
					}
				}
			}
		}
	}
	var out []map[*ssa.BasicBlock]bool
	for _, b := range fn.Blocks {
		if body, ok := bodies[b]; ok {
			out = append(out, body)
		}
	}
	return out
}

// build_callbacks_restartable (root package): bytemap.Build is an external function that calls the builder function it is
// given more than once (once to size the map and once to fill it; its contract promises no particular number of calls).
// A builder that accumulates into a variable it captures by reference therefore accumulates once per call. The
// obligation, one per captured variable that the builder (or a function literal nested in it) assigns a non-constant
// value: the first thing the builder does with that variable, in its entry block, is to assign it a constant, so that
// what the variable holds after Build does not depend on how often Build called the builder.
func init() {
	structuralChecks["build_callbacks_restartable"] = func(s *Session) ([]*Obligation, error) {
		var out []*Obligation
		keys := []string{}
		for k := range s.fns {
			keys = append(keys, k)
		}
		sort.Strings(keys)
		nSites := 0
		for _, k := range keys {
			fn := s.fns[k]
			if fn == nil || len(fn.Blocks) == 0 || fn.Pkg == nil || fn.Pkg.Pkg.Path() != "github.com/getlantern/zenodb" {
				continue
			}
			for _, b := range fn.Blocks {
				for _, in := range b.Instrs {
					c, ok := in.(*ssa.Call)
					if !ok {
						continue
					}
					callee := c.Call.StaticCallee()
					if callee == nil || callee.Pkg == nil || callee.Pkg.Pkg.Path() != "github.com/getlantern/bytemap" || callee.Name() != "Build" || len(c.Call.Args) == 0 {
						continue
					}
					nSites++
					mc, ok := c.Call.Args[0].(*ssa.MakeClosure)
					if !ok {
						out = append(out, structObl(fmt.Sprintf("build_callbacks_restartable.%s.builder", k), "the builder handed to bytemap.Build is a function literal", false, "the builder is not a function literal: cannot enumerate what it assigns"))
						continue
					}
					cl := mc.Fn.(*ssa.Function)
					for i, bind := range mc.Bindings {
						a, ok := bind.(*ssa.Alloc)
						if !ok {
							continue
						}
						fv := cl.FreeVars[i]
						if !assignsNonConst(cl, fv, map[*ssa.Function]bool{}) {
							continue
						}
						name := a.Comment
						okReset := false
						detail := fmt.Sprintf("the builder %s accumulates into the captured variable %s without first resetting it: bytemap.Build calls the builder twice, so everything it adds is added twice", cl.Name(), name)
						if len(cl.Blocks) > 0 {
							for _, ii := range cl.Blocks[0].Instrs {
								uses := false
								for _, op := range ii.Operands(nil) {
									if op != nil && *op == ssa.Value(fv) {
										uses = true
									}
								}
								if !uses {
									continue
								}
								if st, ok := ii.(*ssa.Store); ok && st.Addr == ssa.Value(fv) {
									if _, isConst := st.Val.(*ssa.Const); isConst {
										okReset = true
									}
								}
								break
							}
						}
						out = append(out, structObl(fmt.Sprintf("build_callbacks_restartable.%s.%s", k, name), "a builder handed to bytemap.Build resets what it accumulates before accumulating", okReset, detail))
					}
				}
			}
		}
		if nSites == 0 {
			return nil, fmt.Errorf("build_callbacks_restartable: no call of bytemap.Build found in the root package: enumeration broken")
		}
		return out, nil
	}
}

// assignsNonConst reports whether fn, or a function literal nested in it that captures the same cell, stores a
// non-constant value into the cell fv.
func assignsNonConst(fn *ssa.Function, fv ssa.Value, seen map[*ssa.Function]bool) bool {
	if seen[fn] {
		return false
	}
	seen[fn] = true
	for _, b := range fn.Blocks {
		for _, in := range b.Instrs {
			switch x := in.(type) {
			case *ssa.Store:
				if x.Addr == fv {
					if _, isConst := x.Val.(*ssa.Const); !isConst {
						return true
					}
				}
			case *ssa.MakeClosure:
				inner := x.Fn.(*ssa.Function)
				for i, bind := range x.Bindings {
					if bind == fv && assignsNonConst(inner, inner.FreeVars[i], seen) {
						return true
					}
				}
			}
		}
	}
	return false
}

// sql_units_positive: the package variable sql.unitMap is built by a map literal in the package initialiser and never
// assigned elsewhere (const_global); every value the literal stores is a positive constant. This discharges, by
// enumeration, the invariant allvals_positive(unitMap) that ParseDuration's division by a looked-up unit relies on.
func init() {
	structuralChecks["sql_units_positive"] = func(s *Session) ([]*Obligation, error) {
		fn := s.fns["sql.init"]
		if fn == nil {
			return nil, fmt.Errorf("contract target missing: sql.init")
		}
		var theMap ssa.Value
		for _, b := range fn.Blocks {
			for _, in := range b.Instrs {
				if st, ok := in.(*ssa.Store); ok {
					if g, ok := st.Addr.(*ssa.Global); ok && g.Name() == "unitMap" {
						if theMap != nil {
							return []*Obligation{structObl("sql_units_positive", "every unit of sql.unitMap is positive", false, "unitMap is assigned more than once in the package initialiser")}, nil
						}
						theMap = st.Val
					}
				}
			}
		}
		if theMap == nil {
			return nil, fmt.Errorf("sql_units_positive: no store to unitMap in sql.init: enumeration broken")
		}
		if _, ok := theMap.(*ssa.MakeMap); !ok {
			return []*Obligation{structObl("sql_units_positive", "every unit of sql.unitMap is positive", false, "unitMap is not initialised by a map literal")}, nil
		}
		n := 0
		okAll := true
		detail := ""
		for _, ref := range *theMap.Referrers() {
			switch x := ref.(type) {
			case *ssa.MapUpdate:
				n++
				c, isConst := x.Value.(*ssa.Const)
				if !isConst || c.Value == nil || constant.Sign(c.Value) <= 0 {
					okAll = false
					detail = fmt.Sprintf("unit %s of sql.unitMap is not a positive constant (%s): ParseDuration divides by it", x.Key, x.Value)
				}
			case *ssa.Store, *ssa.DebugRef:
			default:
				okAll = false
				detail = fmt.Sprintf("the map literal of sql.unitMap is used by %s in the package initialiser", ref)
			}
		}
		if n == 0 {
			return nil, fmt.Errorf("sql_units_positive: the map literal has no entries: enumeration broken")
		}
		return []*Obligation{structObl("sql_units_positive", fmt.Sprintf("every one of the %d units of sql.unitMap is a positive constant", n), okAll, detail)}, nil
	}
}
