package main

// Lemmas (closed formulas over spec functions) and structural obligations (mechanical enumerations).

import (
	"fmt"

	"golang.org/x/tools/go/ssa"
)

func (s *Session) dummyTx(name string) *FnTx {
	d := newDecls()
	tx := &FnTx{ld: s.ld, prog: s.ld.Prog, cs: s.cs, key: name, d: d,
		h:    &HeapEnv{d: d, comps: map[string]*Comp{}},
		vals: map[ssa.Value]Term{}, locs: map[ssa.Value]*Loc{}, tuples: map[ssa.Value][]Term{},
		lets: map[string]Term{}, globals: map[*ssa.Global]int{}, ncall: map[string]int{}, nsafe: map[string]int{},
		notes: map[string]int{}}
	d.declConst("alloc0", "Int")
	d.declConst("hv0", "Int")
	tx.entry = &State{epoch: 0, heaps: map[string]string{}, alloc: "alloc0", hv: "hv0", locals: map[ssa.Value]Term{}, ghost: map[string]Term{}}
	return tx
}

func (s *Session) lemmaObligation(name string) (*Obligation, error) {
	for _, lm := range s.cs.Lemmas {
		if lm.Name != name {
			continue
		}
		tx := s.dummyTx("lemma")
		env := &SpecEnv{tx: tx, vars: map[string]Term{}, locs: map[string]*Loc{}, cur: tx.entry, old: tx.entry}
		if p := s.ld.PPkgs[pkgPath(lm.Pkg)]; p != nil {
			env.pkg = p.Types
		}
		for _, v := range lm.Vars {
			n := "lv_" + sanitize(v.Name)
			tx.d.declConst(n, v.Sort)
			env.vars[v.Name] = Term{S: n, Sort: v.Sort}
		}
		g, err := env.TrBool(lm.E)
		if err != nil {
			return nil, fmt.Errorf("lemma %s: %v", name, err)
		}
		o := &Obligation{Name: "lemma:" + name, Fn: "lemma", Kind: "lemma", Label: name, Goal: g, Reach: "true", NAssume: len(tx.assumes), Src: lm.Src, tx: tx, Block: -1}
		return o, nil
	}
	return nil, fmt.Errorf("lemma %s not found in the contract files", name)
}

func (s *Session) structural(name string) ([]*Obligation, error) {
	if f, ok := structuralChecks[name]; ok {
		return f(s)
	}
	return nil, fmt.Errorf("unknown structural obligation %s", name)
}

var structuralChecks = map[string]func(*Session) ([]*Obligation, error){}

// structObl makes an already-decided obligation (decided by enumeration over the SSA program, not by a solver).
func structObl(name, src string, ok bool, detail string) *Obligation {
	o := &Obligation{Name: "struct:" + name, Fn: "structural", Kind: "struct", Label: name, Src: src, Solver: "enumeration"}
	if ok {
		o.Status = "proved"
	} else {
		o.Status = "failed-structural"
		o.Output = detail
	}
	return o
}
