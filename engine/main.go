package main

import (
	"flag"
	"fmt"
	"os"
	"path/filepath"
	"sort"
	"strings"

	"golang.org/x/tools/go/ssa"
	"golang.org/x/tools/go/ssa/ssautil"
)

const verifDir = "/verif"

var repoDir = "/repo"

func allPkgDirs() []string {
	return []string{"encoding", "core", "expr", "bytetree", ".", "web", "rpc/server", "sql", "planner", "common"}
}

func pkgPath(dir string) string {
	if dir == "." {
		return modPath
	}
	return modPath + "/" + dir
}

type Session struct {
	ld  *Loaded
	cs  *Contracts
	fns map[string]*ssa.Function
}

func openSession(pkgDirs []string) (*Session, error) {
	paths := []string{}
	for _, d := range pkgDirs {
		paths = append(paths, pkgPath(d))
	}
	ld, err := loadRepo(repoDir, paths)
	if err != nil {
		return nil, err
	}
	cs, err := loadContracts(repoDir, filepath.Join(verifDir, "contracts"), pkgDirs)
	if err != nil {
		return nil, err
	}
	s := &Session{ld: ld, cs: cs, fns: map[string]*ssa.Function{}}
	for fn := range ssautil.AllFunctions(ld.Prog) {
		s.fns[fnKey(fn)] = fn
	}
	return s, nil
}

func (s *Session) verifyFn(key string) (*FnTx, error) { return s.verifyFnInstance(key, "") }

func (s *Session) verifyFnInstance(key, instance string) (*FnTx, error) {
	fn := s.fns[key]
	if fn == nil {
		return nil, fmt.Errorf("contract target missing: %s", key)
	}
	c := s.cs.Fns[key]
	tx := newFnTx(s.ld, s.cs, fn, c)
	tx.instance = instance
	if err := tx.run(); err != nil {
		return tx, err
	}
	return tx, nil
}

func cmdFn(args []string) int {
	fs := flag.NewFlagSet("fn", flag.ExitOnError)
	timeout := fs.Int("timeout", 10, "solver timeout (s)")
	keep := fs.String("keep", "", "directory to keep smt files")
	dump := fs.Bool("ssa", false, "dump SSA")
	inst := fs.String("instance", "", "bounded instance name")
	sweep := fs.Bool("sweep", false, "zero-annotation no-panic sweep: functions without a contract get {nopanic own, modifies *}")
	pk := fs.String("pkgs", "", "comma separated package dirs (default all)")
	fs.Parse(args)
	dirs := allPkgDirs()
	if *pk != "" {
		dirs = strings.Split(*pk, ",")
	}
	s, err := openSession(dirs)
	if err != nil {
		fmt.Println("ERROR", err)
		return 2
	}
	dir := *keep
	if dir == "" {
		dir, _ = os.MkdirTemp("/var/tmp", "zv.")
		defer os.RemoveAll(dir)
	} else {
		os.MkdirAll(dir, 0o755)
	}
	rc := 0
	for _, key := range fs.Args() {
		if *dump {
			if fn := s.fns[key]; fn != nil {
				fn.WriteTo(os.Stdout)
			}
		}
		if *sweep && s.cs.Fns[key] == nil {
			s.cs.Fns[key] = &FnContract{Key: key, NoPanic: true, NoPanicOwn: true, ModAll: true, HasMod: true, Loops: map[int]*LoopSpec{}, Sweep: true}
		}
		tx, err := s.verifyFnInstance(key, *inst)
		if err != nil {
			fmt.Println("ERROR", err)
			rc = 2
			continue
		}
		for _, u := range tx.unsupported {
			fmt.Println("UNSUPPORTED", key, u)
		}
		maxFailures = 1 << 30 // debugging command: decide every obligation
		var open []*Obligation
		for _, o := range tx.obls {
			if o.Status == "" {
				open = append(open, o)
			}
		}
		dischargeAll(open, dir, *timeout, 5)
		for _, o := range tx.obls {
			fmt.Printf("%-10s %-8s %6.2fs %s\n", o.Status, o.Solver, o.TimeS, o.Name)
			if o.Status == "failed" || o.Status == "unknown" || o.Status == "error" || o.Status == "vacuous" || o.Status == "failed-structural" {
				rc = 1
				fmt.Println("    goal:", o.Src)
				if o.Status == "failed" {
					fmt.Println("   ", strings.Join(modelSummary(o.Model), "\n    "))
				}
				if o.Status != "failed" {
					fmt.Println("   ", strings.ReplaceAll(trunc(o.Output, 600), "\n", "\n    "))
				}
			}
		}
		notes := []string{}
		for n, k := range tx.notes {
			notes = append(notes, fmt.Sprintf("%s (x%d)", n, k))
		}
		sort.Strings(notes)
		for _, n := range notes {
			fmt.Println("NOTE", n)
		}
	}
	return rc
}

func main() {
	if len(os.Args) < 2 {
		fmt.Println("usage: zv check|fn|list ...")
		os.Exit(2)
	}
	if r := os.Getenv("ZV_REPO"); r != "" {
		repoDir = r
	}
	switch os.Args[1] {
	case "fn":
		os.Exit(cmdFn(os.Args[2:]))
	case "check":
		os.Exit(cmdCheck(os.Args[2:]))
	case "list":
		s, err := openSession(allPkgDirs())
		if err != nil {
			fmt.Println("ERROR", err)
			os.Exit(2)
		}
		keys := []string{}
		for k := range s.fns {
			if len(os.Args) > 2 && !strings.Contains(k, os.Args[2]) {
				continue
			}
			keys = append(keys, k)
		}
		sort.Strings(keys)
		for _, k := range keys {
			fmt.Println(k)
		}
	default:
		fmt.Println("unknown command", os.Args[1])
		os.Exit(2)
	}
}

// modelSummary extracts the parameter and result constants from a solver model.
func modelSummary(model string) []string {
	var out []string
	lines := strings.Split(model, "\n")
	for i := 0; i < len(lines); i++ {
		l := strings.TrimSpace(lines[i])
		if strings.HasPrefix(l, "(define-fun p_") || strings.HasPrefix(l, "(define-fun fv") || strings.HasPrefix(l, "(define-fun cglob") {
			v := ""
			if i+1 < len(lines) {
				v = strings.TrimSpace(lines[i+1])
			}
			name := strings.Fields(l)[1]
			out = append(out, name+" = "+strings.TrimSuffix(v, ")"))
		}
	}
	sort.Strings(out)
	return out
}
