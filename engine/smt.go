package main

// SMT-level vocabulary: terms, sorts, declarations, Go type -> sort mapping.

import (
	"fmt"
	"go/types"
	"regexp"
	"sort"
	"strings"
)

type Term struct {
	S    string
	Sort string
	GT   types.Type // Go type when known (may be nil for pure spec values)
}

func (t Term) String() string { return t.S }

const prelude = `(declare-sort Str 0)
(declare-datatypes ((Slice 0)) (((mk-slice (s-obj Int) (s-off Int) (s-len Int) (s-cap Int)))))
(declare-datatypes ((Iface 0)) (((mk-iface (i-typ Int) (i-val Int)))))
(define-fun wfslice ((s Slice)) Bool (and (>= (s-obj s) 0) (>= (s-off s) 0) (>= (s-len s) 0) (<= (s-len s) (s-cap s)) (=> (= (s-obj s) 0) (and (= (s-cap s) 0) (= (s-off s) 0) (= (s-len s) 0)))))
(define-fun tdiv ((a Int) (b Int)) Int (ite (>= a 0) (ite (> b 0) (div a b) (- (div a (- b)))) (ite (> b 0) (- (div (- a) b)) (div (- a) (- b)))))
(define-fun tmod ((a Int) (b Int)) Int (- a (* b (tdiv a b))))
(define-fun fdiv ((a Int) (b Int)) Int (ite (> b 0) (div a b) (div (- a) (- b))))
(define-fun imin ((a Int) (b Int)) Int (ite (<= a b) a b))
(define-fun imax ((a Int) (b Int)) Int (ite (>= a b) a b))
(define-fun isign ((a Int)) Int (ite (< a 0) (- 1) (ite (> a 0) 1 0)))
(define-fun clamp64 ((a Int)) Int (ite (> a 9223372036854775807) 9223372036854775807 (ite (< a (- 9223372036854775808)) (- 9223372036854775808) a)))
(define-fun u64of ((a Int)) Int (ite (>= a 0) a (+ a 18446744073709551616)))
(define-fun i64of ((a Int)) Int (ite (< a 9223372036854775808) a (- a 18446744073709551616)))
(define-fun be64 ((a (Array Int Int)) (o Int)) Int (+ (* 72057594037927936 (select a o)) (* 281474976710656 (select a (+ o 1))) (* 1099511627776 (select a (+ o 2))) (* 4294967296 (select a (+ o 3))) (* 16777216 (select a (+ o 4))) (* 65536 (select a (+ o 5))) (* 256 (select a (+ o 6))) (select a (+ o 7))))
(define-fun be32 ((a (Array Int Int)) (o Int)) Int (+ (* 16777216 (select a o)) (* 65536 (select a (+ o 1))) (* 256 (select a (+ o 2))) (select a (+ o 3))))
(define-fun be16 ((a (Array Int Int)) (o Int)) Int (+ (* 256 (select a o)) (select a (+ o 1))))
(declare-fun strlen (Str) Int)
(declare-fun strcat (Str Str) Str)
(declare-const str_empty Str)
(assert (= (strlen str_empty) 0))
`

// boxDecl declares the boxing pair for a payload sort on demand (quantified axiom only when used).
func (d *Decls) boxDecl(sort string) (box, unbox string) {
	box = "box_" + sanitize(sort)
	unbox = "unbox_" + sanitize(sort)
	d.declFun(box, []string{sort}, "Int")
	d.declFun(unbox, []string{"Int"}, sort)
	d.add("ax:"+box, fmt.Sprintf("(assert (forall ((x %s)) (! (= (%s (%s x)) x) :pattern ((%s x)))))", sort, unbox, box, box))
	return
}

// timeK is the offset between Go's absolute time (ns since year 1) and Unix ns.
const timeK = "62135596800000000000"

// Decls is an ordered registry of SMT declarations (shared by all obligations of one function).
type Decls struct {
	order []string
	seen  map[string]bool
	// struct datatypes
	structs map[string]*types.Struct
	strLits map[string]string
	tyIDs   map[string]int
	nfresh  int
}

func newDecls() *Decls {
	return &Decls{seen: map[string]bool{}, structs: map[string]*types.Struct{}, strLits: map[string]string{}, tyIDs: map[string]int{}}
}

func (d *Decls) add(key, text string) {
	if d.seen[key] {
		return
	}
	d.seen[key] = true
	d.order = append(d.order, text)
}

func (d *Decls) declConst(name, sort string) {
	d.add("c:"+name, fmt.Sprintf("(declare-const %s %s)", name, sort))
}

func (d *Decls) declFun(name string, args []string, ret string) {
	d.add("f:"+name, fmt.Sprintf("(declare-fun %s (%s) %s)", name, strings.Join(args, " "), ret))
}

func (d *Decls) fresh(prefix, sort string) string {
	d.nfresh++
	n := fmt.Sprintf("%s!%d", sanitize(prefix), d.nfresh)
	d.declConst(n, sort)
	return n
}

func (d *Decls) text(upto int) string {
	if upto < 0 || upto > len(d.order) {
		upto = len(d.order)
	}
	return strings.Join(d.order[:upto], "\n")
}

func sanitize(s string) string {
	var b strings.Builder
	for _, r := range s {
		switch {
		case r >= 'a' && r <= 'z', r >= 'A' && r <= 'Z', r >= '0' && r <= '9', r == '_':
			b.WriteRune(r)
		case r == '*':
			b.WriteString("P")
		case r == '[':
			b.WriteString("L")
		case r == ']':
			b.WriteString("J")
		default:
			b.WriteString("_")
		}
	}
	return b.String()
}

func shortType(t types.Type) string {
	s := types.TypeString(t, func(p *types.Package) string {
		pp := p.Path()
		pp = strings.TrimPrefix(pp, modPath+"/")
		if pp == modPath {
			pp = "zenodb"
		}
		return pp
	})
	s = byteRe.ReplaceAllString(s, "uint8")
	s = runeRe.ReplaceAllString(s, "int32")
	return s
}

var byteRe = regexp.MustCompile(`\bbyte\b`)
var runeRe = regexp.MustCompile(`\brune\b`)

func isTimeType(t types.Type) bool {
	n, ok := t.(*types.Named)
	return ok && n.Obj().Pkg() != nil && n.Obj().Pkg().Path() == "time" && n.Obj().Name() == "Time"
}

// sortOf maps a Go type to an SMT sort, declaring struct datatypes on demand.
func (d *Decls) sortOf(t types.Type) string {
	if t == nil {
		return "Int"
	}
	if isTimeType(t) {
		return "Int"
	}
	switch u := t.Underlying().(type) {
	case *types.Basic:
		switch {
		case u.Info()&types.IsBoolean != 0:
			return "Bool"
		case u.Info()&types.IsInteger != 0:
			return "Int"
		case u.Info()&types.IsFloat != 0:
			return "Real"
		case u.Info()&types.IsString != 0:
			return "Str"
		case u.Kind() == types.UnsafePointer:
			return "Int"
		case u.Kind() == types.UntypedNil:
			return "Int"
		}
		return "Int"
	case *types.Slice:
		return "Slice"
	case *types.Pointer, *types.Map, *types.Chan, *types.Signature:
		return "Int"
	case *types.Interface:
		return "Iface"
	case *types.Array:
		return "(Array Int " + d.sortOf(u.Elem()) + ")"
	case *types.Struct:
		name := "St_" + sanitize(shortType(t))
		if _, ok := d.structs[name]; !ok {
			d.structs[name] = u
			// declare fields first (nested struct values)
			fs := []string{}
			for i := 0; i < u.NumFields(); i++ {
				fs = append(fs, fmt.Sprintf("(%s %s)", d.fieldSel(name, u, i), d.sortOf(u.Field(i).Type())))
			}
			if len(fs) == 0 {
				d.add("s:"+name, fmt.Sprintf("(declare-datatypes ((%s 0)) (((mk_%s))))", name, name))
			} else {
				d.add("s:"+name, fmt.Sprintf("(declare-datatypes ((%s 0)) (((mk_%s %s))))", name, name, strings.Join(fs, " ")))
			}
		}
		return name
	case *types.Tuple:
		return "Tuple"
	}
	return "Int"
}

func (d *Decls) fieldSel(sname string, u *types.Struct, i int) string {
	return fmt.Sprintf("%s_%d_%s", sname, i, sanitize(u.Field(i).Name()))
}

// zero value of a Go type
func (d *Decls) zero(t types.Type) Term {
	s := d.sortOf(t)
	switch s {
	case "Bool":
		return Term{"false", s, t}
	case "Int":
		return Term{"0", s, t}
	case "Real":
		return Term{"0.0", s, t}
	case "Str":
		return Term{"str_empty", s, t}
	case "Slice":
		return Term{"(mk-slice 0 0 0 0)", s, t}
	case "Iface":
		return Term{"(mk-iface 0 0)", s, t}
	}
	switch u := t.Underlying().(type) {
	case *types.Struct:
		if u.NumFields() == 0 {
			return Term{"mk_" + s, s, t}
		}
		parts := []string{}
		for i := 0; i < u.NumFields(); i++ {
			parts = append(parts, d.zero(u.Field(i).Type()).S)
		}
		return Term{"(mk_" + s + " " + strings.Join(parts, " ") + ")", s, t}
	case *types.Array:
		return Term{d.constArray(d.sortOf(u.Elem()), d.zero(u.Elem()).S), s, t}
	}
	return Term{"0", "Int", t}
}

func (d *Decls) strLit(v string) string {
	if v == "" {
		return "str_empty"
	}
	if n, ok := d.strLits[v]; ok {
		return n
	}
	n := fmt.Sprintf("strlit_%d_%s", len(d.strLits), sanitize(trunc(v, 20)))
	d.strLits[v] = n
	d.declConst(n, "Str")
	d.add("sl:"+n, fmt.Sprintf("(assert (= (strlen %s) %d))", n, len(v)))
	return n
}

// distinctness of string literals (emitted at the end of the declarations)
func (d *Decls) strDistinct() string {
	if len(d.strLits) == 0 {
		return ""
	}
	names := []string{"str_empty"}
	for _, n := range d.strLits {
		names = append(names, n)
	}
	sort.Strings(names)
	if len(names) < 2 {
		return ""
	}
	return "(assert (distinct " + strings.Join(names, " ") + "))"
}

func trunc(s string, n int) string {
	if len(s) > n {
		return s[:n]
	}
	return s
}

// constArray builds the array with every element equal to zero. cvc5 only accepts values in (as const ...), so
// zeros that mention uninterpreted constants use a declared array with a defining axiom.
func (d *Decls) constArray(elemSort, zero string) string {
	if !strings.Contains(zero, "str_empty") {
		return fmt.Sprintf("((as const (Array Int %s)) %s)", elemSort, zero)
	}
	n := "zarr_" + sanitize(elemSort)
	d.declConst(n, "(Array Int "+elemSort+")")
	d.add("ax:"+n, fmt.Sprintf("(assert (forall ((i Int)) (! (= (select %s i) %s) :pattern ((select %s i)))))", n, zero, n))
	return n
}

// dynamic type ids for interface values
func (d *Decls) typeID(t types.Type) int {
	k := types.TypeString(t, nil)
	if id, ok := d.tyIDs[k]; ok {
		return id
	}
	id := len(d.tyIDs) + 1
	d.tyIDs[k] = id
	return id
}

func sand(xs ...string) string {
	ys := []string{}
	for _, x := range xs {
		if x == "true" || x == "" {
			continue
		}
		ys = append(ys, x)
	}
	switch len(ys) {
	case 0:
		return "true"
	case 1:
		return ys[0]
	}
	return "(and " + strings.Join(ys, " ") + ")"
}

func sor(xs ...string) string {
	ys := []string{}
	for _, x := range xs {
		if x == "false" || x == "" {
			continue
		}
		if x == "true" {
			return "true"
		}
		ys = append(ys, x)
	}
	switch len(ys) {
	case 0:
		return "false"
	case 1:
		return ys[0]
	}
	return "(or " + strings.Join(ys, " ") + ")"
}

func snot(x string) string {
	if x == "true" {
		return "false"
	}
	if x == "false" {
		return "true"
	}
	return "(not " + x + ")"
}

func simp(a, b string) string {
	if a == "true" {
		return b
	}
	if b == "true" {
		return "true"
	}
	return "(=> " + a + " " + b + ")"
}

func sapp(f string, args ...string) string {
	if len(args) == 0 {
		return f
	}
	return "(" + f + " " + strings.Join(args, " ") + ")"
}

func intLit(v string) string {
	if strings.HasPrefix(v, "-") {
		return "(- " + v[1:] + ")"
	}
	return v
}
