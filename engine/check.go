package main

// zv check --property Cxx --tier quick|thorough : run the obligations mapped to one property, write evidence, report.

import (
	"encoding/json"
	"flag"
	"fmt"
	"os"
	"os/exec"
	"path/filepath"
	"regexp"
	"sort"
	"strconv"
	"strings"
	"time"
)

type PropSpec struct {
	Pkgs      []string `json:"pkgs"`
	Functions []struct {
		Key               string   `json:"key"`
		Labels            []string `json:"labels,omitempty"`             // if set: only obligations whose label matches one of these regexps (plus pre/safe/cover of the function)
		Exclude           []string `json:"exclude,omitempty"`            // obligation-name regexps to skip
		Instances         []string `json:"instances,omitempty"`          // bounded instances (contract `instance` clauses) to verify in addition
		NoUnbounded       bool     `json:"no_unbounded,omitempty"`       // verify only the bounded instances of this function
		ThoroughInstances []string `json:"thorough_instances,omitempty"` // extra instances run in the thorough tier only
	} `json:"functions"`
	Sweep *struct {
		Pkgs  []string `json:"pkgs"`  // package dirs whose functions are all swept (zero annotation)
		Kinds []string `json:"kinds"` // safety obligation families kept: assert, index, slice, div, panic, ...
	} `json:"sweep,omitempty"`
	SweepExclude   []string `json:"sweep_exclude,omitempty"`
	Lemmas         []string `json:"lemmas,omitempty"`
	Structural     []string `json:"structural,omitempty"` // names of structural (enumeration) obligations
	Level          string   `json:"level"`
	Claim          string   `json:"claim"`
	Assumptions    []string `json:"assumptions"`
	Unverified     []string `json:"unverified,omitempty"`
	MinObligations int      `json:"min_obligations"`
}

type Finding struct {
	Kind       string // finding | fixed
	Property   string
	Obligation string // prefix of obligation names
	Commit     string
	Text       string
}

func loadFindings() []Finding {
	var out []Finding
	data, err := os.ReadFile(filepath.Join(verifDir, "known_findings.txt"))
	if err != nil {
		return nil
	}
	for _, l := range strings.Split(string(data), "\n") {
		l = strings.TrimSpace(l)
		if l == "" || strings.HasPrefix(l, "#") {
			continue
		}
		f := Finding{}
		fs := strings.Fields(l)
		f.Kind = strings.TrimSuffix(fs[0], ":")
		rest := []string{}
		for _, w := range fs[1:] {
			switch {
			case strings.HasPrefix(w, "property=") && f.Property == "":
				f.Property = strings.TrimPrefix(w, "property=")
			case strings.HasPrefix(w, "obligation=") && f.Obligation == "":
				f.Obligation = strings.TrimPrefix(w, "obligation=")
			case strings.HasPrefix(w, "commit=") && f.Commit == "":
				f.Commit = strings.TrimPrefix(w, "commit=")
			default:
				rest = append(rest, w)
			}
		}
		f.Text = strings.Join(rest, " ")
		out = append(out, f)
	}
	return out
}

func matchAny(pats []string, s string) bool {
	for _, p := range pats {
		if ok, _ := regexp.MatchString(p, s); ok {
			return true
		}
	}
	return false
}

func solverVersions() string {
	out := []string{}
	for _, c := range [][]string{{"z3", "--version"}, {"z3-new", "--version"}, {"cvc5", "--version"}} {
		b, err := exec.Command(c[0], c[1:]...).Output()
		if err == nil {
			out = append(out, strings.TrimSpace(strings.SplitN(string(b), "\n", 2)[0]))
		}
	}
	return strings.Join(out, "; ")
}

func cmdCheck(args []string) int {
	fs := flag.NewFlagSet("check", flag.ExitOnError)
	prop := fs.String("property", "", "property id")
	tier := fs.String("tier", "quick", "quick|thorough")
	keep := fs.String("keep", "", "keep smt files in this directory")
	fs.Parse(args)
	if t := os.Getenv("VERIF_TIER"); t != "" && *tier == "" {
		*tier = t
	}
	seed := 0
	if s := os.Getenv("VERIF_SEED"); s != "" {
		seed, _ = strconv.Atoi(s)
	}
	t0 := time.Now()
	data, err := os.ReadFile(filepath.Join(verifDir, "contracts", "properties.json"))
	if err != nil {
		fmt.Println("ERROR", err)
		return 2
	}
	var pm map[string]*PropSpec
	if err := json.Unmarshal(data, &pm); err != nil {
		fmt.Println("ERROR properties.json:", err)
		return 2
	}
	ps := pm[*prop]
	if ps == nil {
		fmt.Println("ERROR unknown property", *prop)
		return 2
	}
	timeout := 60
	if *tier == "thorough" {
		timeout = 180
	}
	s, err := openSession(ps.Pkgs)
	if err != nil {
		fmt.Println("ERROR", err)
		return 2
	}
	dir := *keep
	if dir == "" {
		dir, _ = os.MkdirTemp("/var/tmp", "zv.")
		defer os.RemoveAll(dir)
	} else {
		os.MkdirAll(dir, 0o755)
	}
	var obls []*Obligation
	var txs []*FnTx
	nSwept, nSweptObl := 0, 0
	fnInfo := []map[string]interface{}{}
	notes := map[string]int{}
	broken := []string{}
	type job struct {
		key, inst       string
		labels, exclude []string
	}
	var jobs []job
	for _, f := range ps.Functions {
		if !f.NoUnbounded {
			jobs = append(jobs, job{f.Key, "", f.Labels, f.Exclude})
		}
		for _, in := range f.Instances {
			jobs = append(jobs, job{f.Key, in, nil, nil})
		}
		if *tier == "thorough" {
			for _, in := range f.ThoroughInstances {
				jobs = append(jobs, job{f.Key, in, nil, nil})
			}
		}
	}
	sweepFns := map[string]bool{}
	if ps.Sweep != nil {
		keys := []string{}
		for k, fn := range s.fns {
			if fn.Pkg == nil || len(fn.Blocks) == 0 || fn.Synthetic != "" {
				if !(fn.Pkg == nil && fn.Parent() != nil && len(fn.Blocks) > 0) {
					continue
				}
			}
			pk := fn.Pkg
			if pk == nil && fn.Parent() != nil {
				pk = fn.Parent().Pkg
			}
			if pk == nil {
				continue
			}
			for _, d := range ps.Sweep.Pkgs {
				if pk.Pkg.Path() == pkgPath(d) {
					keys = append(keys, k)
				}
			}
		}
		sort.Strings(keys)
		for _, k := range keys {
			if s.cs.Fns[k] == nil {
				s.cs.Fns[k] = &FnContract{Key: k, NoPanic: true, NoPanicOwn: true, ModAll: true, HasMod: true, Loops: map[int]*LoopSpec{}, Sweep: true}
			}
			already := false
			for _, j := range jobs {
				if j.key == k {
					already = true
				}
			}
			if !already {
				jobs = append(jobs, job{key: k})
				sweepFns[k] = true
			}
		}
	}
	for _, f := range jobs {
		tx, err := s.verifyFnInstance(f.key, f.inst)
		if err != nil {
			if strings.Contains(err.Error(), "contract target missing") || tx == nil {
				broken = append(broken, err.Error())
				continue
			}
			// the contract can no longer be interpreted over the function's current body (renamed/retyped variables,
			// changed loop structure): the proof does not cover this code any more - reported as a failed obligation
			o := &Obligation{Name: f.key + "#contract:applies", Fn: f.key, Kind: "contract", Label: "applies", Src: "the contract of " + f.key + " can be interpreted over its current body", Status: "failed-structural", Output: err.Error(), Solver: "zv", Block: -1, Bounded: f.inst}
			if f.inst != "" {
				o.Name += "[" + f.inst + "]"
			}
			obls = append(obls, o)
			continue
		}
		for _, u := range tx.unsupported {
			if sweepFns[f.key] {
				notes["sweep: "+f.key+": construct outside the verified subset (value unconstrained): "+u]++
				continue
			}
			broken = append(broken, f.key+": outside the verified subset: "+u)
		}
		txs = append(txs, tx)
		n := 0
		for _, o := range tx.obls {
			if len(f.exclude) > 0 && matchAny(f.exclude, o.Name) {
				continue
			}
			if isT3(o.Label) && *tier != "thorough" {
				continue
			}
			if sweepFns[f.key] {
				// zero-annotation sweep: only the selected safety families (no covers, no frames)
				keep := false
				if o.Kind == "safe" {
					for _, k := range ps.Sweep.Kinds {
						if strings.HasPrefix(o.Label, k+"@") {
							keep = true
						}
					}
				}
				if !keep || matchAny(ps.SweepExclude, o.Name) {
					continue
				}
			}
			if len(f.labels) > 0 && (o.Kind == "post" || o.Kind == "assert" || o.Kind == "inv-init" || o.Kind == "inv-pres") && !matchAny(f.labels, o.Label) {
				continue
			}
			obls = append(obls, o)
			n++
		}
		for k, v := range tx.notes {
			notes[k] += v
		}
		if sweepFns[f.key] {
			nSwept++
			nSweptObl += n
			continue
		}
		c := s.cs.Fns[f.key]
		info := map[string]interface{}{"function": f.key, "obligations": n}
		if f.inst != "" {
			info["bounded_instance"] = f.inst
		}
		if c != nil {
			info["requires"] = len(c.Requires)
			info["ensures"] = len(c.Ensures)
			info["loops_with_invariant"] = len(c.Loops)
			info["nopanic"] = c.NoPanic
		}
		fnInfo = append(fnInfo, info)
	}
	// lemmas
	for _, ln := range ps.Lemmas {
		o, err := s.lemmaObligation(ln)
		if err != nil {
			broken = append(broken, err.Error())
			continue
		}
		obls = append(obls, o)
	}
	// structural obligations (mechanical enumerations over the SSA program)
	for _, sn := range ps.Structural {
		so, err := s.structural(sn)
		if err != nil {
			broken = append(broken, err.Error())
			continue
		}
		obls = append(obls, so...)
	}
	if len(broken) > 0 {
		for _, b := range broken {
			fmt.Println("ERROR", b)
		}
		return 2
	}
	// discharge everything that needs a solver
	var solverObls []*Obligation
	for _, o := range obls {
		if o.Status == "" {
			solverObls = append(solverObls, o)
		}
	}
	dischargeAll(solverObls, dir, timeout, 5)
	// one retry with a doubled timeout for obligations no solver decided (guards against load-induced timeouts)
	var retry []*Obligation
	earlyFindings := loadFindings()
	for _, o := range solverObls {
		if o.Status == "unknown" || (o.Status == "failed" && strings.Contains(o.Solver, "+relaxed")) {
			listed := false
			for _, f := range earlyFindings {
				if f.Kind == "finding" && f.Property == *prop && strings.HasPrefix(o.Name, f.Obligation) {
					listed = true // a recorded finding is expected to stay red: retrying it only costs two more timeouts
				}
			}
			if !isT3(o.Label) && !listed {
				retry = append(retry, o)
			}
		}
	}
	hardFail := false
	for _, o := range solverObls {
		if (o.Status == "failed" && !strings.Contains(o.Solver, "+relaxed")) || o.Status == "skipped" {
			hardFail = true // a solver produced a genuine counterexample (or we already stopped early): no point retrying
		}
	}
	if len(retry) > 0 && len(retry) <= 3 && !hardFail {
		for _, o := range retry {
			o.Status, o.Solver, o.Output, o.Model = "", "", "", ""
		}
		dischargeAll(retry, dir, 2*timeout, 3)
	}

	findings := loadFindings()
	violations := 0
	known := []string{}
	nProved, nCover, nCoverOK, nTotal := 0, 0, 0, 0
	nBounded, nBoundedOK := 0, 0
	skipped := 0
	bySolver := map[string]int{}
	solverTime := 0.0
	undecidedT3 := []string{}
	vacuous := []string{}
	deadReturns := map[string][]string{}
	retCovers := map[string]int{}
	var lines []string
	for _, o := range obls {
		solverTime += o.TimeS
		if o.Cover {
			nCover++
			switch o.Status {
			case "covered":
				nCoverOK++
			case "vacuous":
				if strings.HasPrefix(o.Label, "ret") {
					deadReturns[o.Fn] = append(deadReturns[o.Fn], o.Name)
				} else {
					vacuous = append(vacuous, o.Name)
				}
			}
			if strings.HasPrefix(o.Label, "ret") {
				retCovers[o.Fn]++
			}
			continue
		}
		if o.Bounded != "" {
			nBounded++
			if o.Status == "proved" {
				nBoundedOK++
				bySolver[o.Solver]++
				continue
			}
		} else {
			nTotal++
			if o.Status == "proved" {
				nProved++
				bySolver[o.Solver]++
				continue
			}
		}
		if o.Status == "skipped" {
			skipped++
			continue
		}
		// not proved
		isKnown := false
		for _, f := range findings {
			if f.Kind == "finding" && f.Property == *prop && strings.HasPrefix(o.Name, f.Obligation) {
				isKnown = true
				lines = append(lines, fmt.Sprintf("KNOWN-FINDING: property=%s %s %s", *prop, o.Name, f.Text))
				known = append(known, o.Name)
				break
			}
		}
		if isKnown {
			continue
		}
		if isT3(o.Label) && (o.Status == "unknown" || (o.Status == "failed" && strings.Contains(o.Solver, "+relaxed"))) {
			undecidedT3 = append(undecidedT3, o.Name)
			if o.Bounded == "" {
				nTotal--
			} else {
				nBounded--
			}
			continue
		}
		violations++
		path := writeReplay(*prop, o, s)
		suffix := ""
		if !o.replayed {
			suffix = " no-failing-input-found"
		}
		lines = append(lines, fmt.Sprintf("VIOLATION property=%s replay=%s%s", *prop, path, suffix))
		lines = append(lines, fmt.Sprintf("  failed obligation: %s [%s]  %s", o.Name, o.Status, o.Src))
	}
	if nTotal < ps.MinObligations {
		fmt.Printf("ERROR obligation count %d below the committed floor %d for %s (vacuity guard)\n", nTotal, ps.MinObligations, *prop)
		return 2
	}
	deadList := []string{}
	// functions with a red (non-cover) obligation: a failed assertion is assumed afterwards, which may make the rest of
	// the function unreachable - that is a consequence of the violation, not a vacuous contract
	redFns := map[string]bool{}
	for _, o := range obls {
		if !o.Cover && o.Status != "proved" && o.Status != "skipped" && o.Status != "" {
			redFns[o.Fn] = true
		}
	}
	for fn, d := range deadReturns {
		if len(d) == retCovers[fn] && !redFns[fn] {
			// no return point of the function is reachable under its contract: the proof is vacuous
			vacuous = append(vacuous, d...)
		} else {
			deadList = append(deadList, d...)
		}
	}
	sort.Strings(deadList)
	if len(vacuous) > 0 {
		for _, v := range vacuous {
			fmt.Println("ERROR vacuous:", v, "(precondition or path condition is unsatisfiable)")
		}
		return 2
	}
	// evidence
	level := ps.Level
	if level == "" {
		level = "proof"
	}
	samples := []map[string]interface{}{}
	for _, o := range obls {
		if o.Cover || len(samples) >= 8 {
			continue
		}
		if o.Kind == "post" || o.Kind == "assert" || o.Kind == "lemma" || o.Kind == "frame" || len(samples) < 2 {
			samples = append(samples, map[string]interface{}{"obligation": o.Name, "goal": o.Src, "status": o.Status, "solver": o.Solver, "time_s": round2(o.TimeS)})
		}
	}
	slowest := append([]*Obligation{}, obls...)
	sort.Slice(slowest, func(i, j int) bool { return slowest[i].TimeS > slowest[j].TimeS })
	slow := []map[string]interface{}{}
	for i := 0; i < len(slowest) && i < 5; i++ {
		slow = append(slow, map[string]interface{}{"obligation": slowest[i].Name, "time_s": round2(slowest[i].TimeS), "solver": slowest[i].Solver})
	}
	noteList := []string{}
	for k, v := range notes {
		noteList = append(noteList, fmt.Sprintf("%s (x%d)", k, v))
	}
	sort.Strings(noteList)
	assumptions := append([]string{}, ps.Assumptions...)
	assumptions = append(assumptions, noteList...)
	trusted := []string{
		"go/packages + go/types + go/ssa (x/tools v0.29.0) as a faithful translation of the Go source in /repo to SSA",
		"the zv SSA->VC translation and its prelude (guarded by /verif/selftest must-fail mutants)",
		"z3 4.8.12, z3 5.1.0, cvc5 1.0 (an unsat from any one is accepted; no proof certificates)",
		"assumed contracts on dependencies in /verif/contracts/deps.spec (time, encoding/binary, sort, ...)",
	}
	src := []string{}
	for p, v := range s.cs.Source {
		src = append(src, p+":"+v)
	}
	sort.Strings(src)
	cov := map[string]interface{}{
		"obligations":               nTotal,
		"discharged":                nProved,
		"checker_cmd":               fmt.Sprintf("/verif/bin/zv check --property %s --tier %s  [%s]", *prop, *tier, solverVersions()),
		"trusted_base":              trusted,
		"functions_under_contract":  fnInfo,
		"by_solver":                 bySolver,
		"solver_time_s":             round2(solverTime),
		"slowest":                   slow,
		"covers":                    map[string]int{"checked": nCover, "satisfiable": nCoverOK},
		"samples":                   samples,
		"contracts_source":          src,
		"claim":                     ps.Claim,
		"unverified_parts":          ps.Unverified,
		"undecided_thorough_only":   undecidedT3,
		"known_findings":            known,
		"bounded":                   map[string]interface{}{"note": "bounded stand-ins (contract `instance` clauses fix resolution and accumulator width; all lengths, alignments and contents remain symbolic); never counted in obligations/discharged", "obligations": nBounded, "discharged": nBoundedOK, "instances": boundedInstances(jobsInstances(ps))},
		"unreachable_return_points": deadList,
		"load_s":                    round2(s.ld.LoadS),
	}
	if len(known) > 0 || level == "other" {
		level = "other"
		cov["explanation"] = fmt.Sprintf("%s. %d of %d obligations discharged; red obligations listed as known findings: %v", ps.Claim, nProved, nTotal, known)
	}
	ev := map[string]interface{}{
		"property_id": *prop, "tier": *tier, "seed": seed, "level": level, "coverage": cov,
		"assumptions": assumptions, "wall_s": round2(time.Since(t0).Seconds()), "violations": violations,
	}
	os.MkdirAll(filepath.Join(verifDir, "evidence"), 0o755)
	eb, _ := json.MarshalIndent(ev, "", " ")
	os.WriteFile(filepath.Join(verifDir, "evidence", *prop+".json"), eb, 0o644)

	for _, l := range lines {
		fmt.Println(l)
	}
	fmt.Printf("%s %s: %d/%d obligations discharged, %d/%d bounded-instance obligations, %d covers ok/%d, %d known findings, %d violations, %.1fs\n", *prop, *tier, nProved, nTotal, nBoundedOK, nBounded, nCoverOK, nCover, len(known), violations, time.Since(t0).Seconds())
	if violations > 0 {
		return 1
	}
	return 0
}

// isT3: thorough-only clause (label t3_*, possibly prefixed by a loop name such as "loop0.")
func isT3(label string) bool {
	return strings.HasPrefix(label, "t3_") || strings.Contains(label, ".t3_")
}

func jobsInstances(ps *PropSpec) map[string][]string {
	m := map[string][]string{}
	for _, f := range ps.Functions {
		if len(f.Instances) > 0 {
			m[f.Key] = f.Instances
		}
	}
	return m
}

func boundedInstances(m map[string][]string) []string {
	out := []string{}
	for k, v := range m {
		out = append(out, k+": "+strings.Join(v, ", "))
	}
	sort.Strings(out)
	return out
}

func round2(f float64) float64 { return float64(int(f*100+0.5)) / 100 }
