package main

import (
	"fmt"
	"os"
	"time"

	"golang.org/x/tools/go/packages"
	"golang.org/x/tools/go/ssa"
	"golang.org/x/tools/go/ssa/ssautil"
)

// Loaded holds the SSA program built from /repo's current working tree.
type Loaded struct {
	Prog    *ssa.Program
	Pkgs    map[string]*ssa.Package // by import path
	PPkgs   map[string]*packages.Package
	LoadS   float64
	RepoDir string
}

const modPath = "github.com/getlantern/zenodb"

func loadRepo(repoDir string, pkgPaths []string) (*Loaded, error) {
	t0 := time.Now()
	cfg := &packages.Config{
		Mode: packages.LoadSyntax,
		Dir:  repoDir,
		Env:  append(os.Environ(), "GOFLAGS=-mod=mod", "GOPROXY=off", "GOSUMDB=off", "GOTOOLCHAIN=local"),
	}
	pats := []string{}
	for _, p := range pkgPaths {
		pats = append(pats, p)
	}
	initial, err := packages.Load(cfg, pats...)
	if err != nil {
		return nil, err
	}
	nerr := 0
	packages.Visit(initial, nil, func(p *packages.Package) {
		for _, e := range p.Errors {
			fmt.Fprintf(os.Stderr, "load error: %v\n", e)
			nerr++
		}
	})
	if nerr > 0 {
		return nil, fmt.Errorf("%d package load errors", nerr)
	}
	prog, pkgs := ssautil.Packages(initial, ssa.GlobalDebug)
	l := &Loaded{Prog: prog, Pkgs: map[string]*ssa.Package{}, PPkgs: map[string]*packages.Package{}, RepoDir: repoDir}
	for i, p := range pkgs {
		if p == nil {
			return nil, fmt.Errorf("no SSA package for %s", initial[i].PkgPath)
		}
		p.Build()
		l.Pkgs[initial[i].PkgPath] = p
		l.PPkgs[initial[i].PkgPath] = initial[i]
	}
	l.LoadS = time.Since(t0).Seconds()
	return l, nil
}
