package main

// Third encoding ("mulnorm"): on top of the mul-as-UF rewriting, every arithmetic atom (<=, <, >=, >, = over integers)
// that involves products by a symbolic multiplier Y is brought to the normal form
//     L + mulby_Y(K) <op> 0
// where L is linear without products and K is the *sum* of all multiplicands (exact: a*Y + b*Y = (a+b)*Y), after
// inlining unconditional linear definitions of temporaries. Comparisons between products then become comparisons
// between single mulby terms, which the monotonicity axiom decides by e-matching; quotients get the exact shift lemma
// divby_Y(L + K*Y) = divby_Y(L) + K (for Y != 0) as a guarded ground assertion. All rewritings are equalities of integer
// arithmetic, so the variant is a sound abstraction exactly like mul-as-UF (unsat is a proof, sat is ignored).

import (
	"math/big"
	"sort"
	"strings"
)

type linForm struct {
	c     *big.Int
	terms map[string]*big.Int
	texpr map[string]*sx
	mul   map[string]*linForm
}

func newLin() *linForm {
	return &linForm{c: new(big.Int), terms: map[string]*big.Int{}, texpr: map[string]*sx{}, mul: map[string]*linForm{}}
}

func (f *linForm) addScaled(g *linForm, k *big.Int) {
	f.c.Add(f.c, new(big.Int).Mul(g.c, k))
	for t, co := range g.terms {
		if f.terms[t] == nil {
			f.terms[t] = new(big.Int)
			f.texpr[t] = g.texpr[t]
		}
		f.terms[t].Add(f.terms[t], new(big.Int).Mul(co, k))
	}
	for y, kk := range g.mul {
		if f.mul[y] == nil {
			f.mul[y] = newLin()
		}
		f.mul[y].addScaled(kk, k)
	}
}

func (f *linForm) isConst() bool {
	for _, co := range f.terms {
		if co.Sign() != 0 {
			return false
		}
	}
	for _, k := range f.mul {
		if !k.isZero() {
			return false
		}
	}
	return true
}

func (f *linForm) isZero() bool { return f.isConst() && f.c.Sign() == 0 }

func (f *linForm) hasMul() bool {
	for _, k := range f.mul {
		if !k.isZero() {
			return true
		}
	}
	return false
}

func (f *linForm) leadingNegative() bool {
	keys := []string{}
	for t, co := range f.terms {
		if co.Sign() != 0 {
			keys = append(keys, t)
		}
	}
	if len(keys) == 0 {
		return f.c.Sign() < 0
	}
	sort.Strings(keys)
	return f.terms[keys[0]].Sign() < 0
}

func numSx(n *big.Int) *sx {
	if n.Sign() < 0 {
		return app("-", &sx{atom: new(big.Int).Neg(n).String()})
	}
	return &sx{atom: n.String()}
}

// render produces an s-expression for the linear form (without its mul part when withMul is false).
func (f *linForm) render(withMul bool) *sx {
	var parts []*sx
	keys := []string{}
	for t, co := range f.terms {
		if co.Sign() != 0 {
			keys = append(keys, t)
		}
	}
	sort.Strings(keys)
	for _, t := range keys {
		co := f.terms[t]
		switch {
		case co.Cmp(big.NewInt(1)) == 0:
			parts = append(parts, f.texpr[t])
		case co.Cmp(big.NewInt(-1)) == 0:
			parts = append(parts, app("-", f.texpr[t]))
		default:
			parts = append(parts, app("*", numSx(co), f.texpr[t]))
		}
	}
	if withMul {
		ys := []string{}
		for y, k := range f.mul {
			if !k.isZero() {
				ys = append(ys, y)
			}
		}
		sort.Strings(ys)
		for _, y := range ys {
			k := f.mul[y]
			if k.isConst() {
				// constant multiple of Y: linear
				parts = append(parts, app("*", numSx(k.c), &sx{atom: y}))
				continue
			}
			// canonical sign: the multiplicand's leading coefficient is positive, so that (-a)*Y and a*Y share one term
			if k.leadingNegative() {
				neg := newLin()
				neg.addScaled(k, big.NewInt(-1))
				parts = append(parts, app("-", app(mulName(y), neg.render(false))))
			} else {
				parts = append(parts, app(mulName(y), k.render(false)))
			}
		}
	}
	if f.c.Sign() != 0 || len(parts) == 0 {
		parts = append(parts, numSx(f.c))
	}
	if len(parts) == 1 {
		return parts[0]
	}
	return app("+", parts...)
}

type linNormalizer struct {
	r      *mulRewriter
	lemmas map[string]bool
}

func numeralValue(s *sx) (*big.Int, bool) {
	if s.isAtom() {
		n, ok := new(big.Int).SetString(s.atom, 10)
		return n, ok
	}
	if len(s.list) == 2 && s.list[0].atom == "-" && s.list[1].isAtom() {
		n, ok := new(big.Int).SetString(s.list[1].atom, 10)
		if ok {
			return n.Neg(n), true
		}
	}
	return nil, false
}

func (n *linNormalizer) opaque(t *sx) *linForm {
	f := newLin()
	k := t.String()
	f.terms[k] = big.NewInt(1)
	f.texpr[k] = t
	return f
}

func (n *linNormalizer) lin(t *sx, depth int) *linForm {
	if v, ok := numeralValue(t); ok {
		f := newLin()
		f.c.Set(v)
		return f
	}
	if t.isAtom() {
		if depth < 5 && n.r.bound[t.atom] == 0 {
			if d, ok := n.r.defs[t.atom]; ok && arithHead(d) {
				return n.lin(n.r.rewrite(n.r.subst(d)), depth+1)
			}
		}
		return n.opaque(t)
	}
	if len(t.list) == 0 {
		return n.opaque(t)
	}
	head := t.list[0].atom
	if strings.HasPrefix(head, "pf_") && depth < 5 && n.r.isGround(t) {
		if d, ok := n.r.termDefs[t.String()]; ok {
			return n.lin(n.r.rewrite(n.r.subst(d)), depth+1)
		}
	}
	switch {
	case head == "+":
		f := newLin()
		for _, a := range t.list[1:] {
			f.addScaled(n.lin(a, depth), big.NewInt(1))
		}
		return f
	case head == "-":
		f := newLin()
		if len(t.list) == 2 {
			f.addScaled(n.lin(t.list[1], depth), big.NewInt(-1))
			return f
		}
		f.addScaled(n.lin(t.list[1], depth), big.NewInt(1))
		for _, a := range t.list[2:] {
			f.addScaled(n.lin(a, depth), big.NewInt(-1))
		}
		return f
	case head == "*" && len(t.list) == 3:
		a, b := n.lin(t.list[1], depth), n.lin(t.list[2], depth)
		if a.isConst() {
			f := newLin()
			f.addScaled(b, a.c)
			return f
		}
		if b.isConst() {
			f := newLin()
			f.addScaled(a, b.c)
			return f
		}
		// product with a multiplier atom that the first pass left alone (e.g. (* 3 Y) handled above)
		return n.opaque(t)
	case strings.HasPrefix(head, "mulby_") && len(t.list) == 2:
		y := strings.TrimPrefix(head, "mulby_")
		k := n.lin(t.list[1], depth)
		if k.hasMul() {
			return n.opaque(t)
		}
		f := newLin()
		f.mul[y] = newLin()
		f.mul[y].addScaled(k, big.NewInt(1))
		return f
	case strings.HasPrefix(head, "divby_") && len(t.list) == 2:
		y := strings.TrimPrefix(head, "divby_")
		inner := n.lin(t.list[1], depth)
		if k, ok := inner.mul[y]; ok && !k.isZero() && n.r.isGround(t) {
			rest := newLin()
			rest.addScaled(inner, big.NewInt(1))
			delete(rest.mul, y)
			if !rest.hasMul() {
				// shift lemma: divby(L + K*Y) = divby(L) + K   (Y != 0)
				restT := app(head, rest.render(true))
				lemma := app("=>", app("not", app("=", &sx{atom: y}, &sx{atom: "0"})),
					app("=", t, app("+", restT, k.render(false))))
				n.lemmas[lemma.String()] = true
				n.r.noteMul(y, restT)
			}
		}
		return n.opaque(t)
	}
	return n.opaque(t)
}

func arithHead(d *sx) bool {
	if d.isAtom() || len(d.list) == 0 {
		return false
	}
	h := d.list[0].atom
	return h == "+" || h == "-" || h == "*" || strings.HasPrefix(h, "mulby_")
}

// normalize rewrites the comparison atoms of a formula.
func (n *linNormalizer) normalize(s *sx) *sx {
	if s.isAtom() || len(s.list) == 0 {
		return s
	}
	head := s.list[0].atom
	if head == "forall" || head == "exists" {
		names := []string{}
		if len(s.list) >= 3 {
			for _, b := range s.list[1].list {
				if len(b.list) == 2 {
					names = append(names, b.list[0].atom)
				}
			}
		}
		for _, nm := range names {
			n.r.bound[nm]++
		}
		out := &sx{list: []*sx{s.list[0], s.list[1]}}
		for _, c := range s.list[2:] {
			out.list = append(out.list, n.normalize(c))
		}
		for _, nm := range names {
			n.r.bound[nm]--
		}
		return out
	}
	if head == "!" {
		// keep patterns untouched
		out := &sx{list: []*sx{s.list[0], n.normalize(s.list[1])}}
		out.list = append(out.list, s.list[2:]...)
		return out
	}
	switch head {
	case "<=", "<", ">=", ">", "=":
		if len(s.list) == 3 {
			var a *linForm
			if head == "=" && s.list[1].isAtom() && n.r.defs[s.list[1].atom] != nil {
				a = n.opaque(s.list[1]) // keep the defining equation of a temporary
			} else {
				a = n.lin(s.list[1], 0)
			}
			b := n.lin(s.list[2], 0)
			if a.hasMul() || b.hasMul() {
				f := newLin()
				f.addScaled(a, big.NewInt(1))
				f.addScaled(b, big.NewInt(-1))
				return app(head, f.render(true), &sx{atom: "0"})
			}
		}
	}
	out := &sx{list: make([]*sx, len(s.list))}
	out.list[0] = s.list[0]
	for i, c := range s.list[1:] {
		out.list[i+1] = n.normalize(c)
	}
	return out
}
