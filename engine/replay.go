package main

// Counterexample replay: solver model -> in-package Go test injected with `go test -overlay`, run against the real code.

import (
	"bytes"
	"context"
	"encoding/json"
	"fmt"
	"math/big"
	"os"
	"os/exec"
	"path/filepath"
	"regexp"
	"strings"
	"text/template"
	"time"
)

// replay templates: obligation-name regexp -> template file (under /verif/replay) and package dir in /repo
type replayRule struct {
	Pattern  string `json:"pattern"`
	Template string `json:"template"`
	Pkg      string `json:"pkg"`
	Witness  bool   `json:"witness"` // canned witness harness: does not need model values
}

func loadReplayRules() []replayRule {
	var rules []replayRule
	data, err := os.ReadFile(filepath.Join(verifDir, "replay", "rules.json"))
	if err != nil {
		return nil
	}
	json.Unmarshal(data, &rules)
	return rules
}

var defineFunRe = regexp.MustCompile(`\(define-fun ([^ ]+) \(\) ([^\n]+)\n\s+([^\n]+)\)`)

// parseModel extracts scalar and slice constants from a z3/cvc5 model.
func parseModel(model string) map[string]string {
	out := map[string]string{}
	// normalise single-line definitions (cvc5) to the two-line z3 form
	lines := strings.Split(model, "\n")
	for i := 0; i < len(lines); i++ {
		l := strings.TrimSpace(lines[i])
		if !strings.HasPrefix(l, "(define-fun ") {
			continue
		}
		fs := strings.Fields(l)
		if len(fs) < 4 || fs[2] != "()" {
			continue
		}
		name := fs[1]
		var val string
		rest := strings.TrimSpace(strings.SplitN(l, "()", 2)[1])
		// rest = "<sort> [value)]"
		sortEnd := sortTokenEnd(rest)
		after := strings.TrimSpace(rest[sortEnd:])
		if after != "" {
			val = strings.TrimSuffix(after, ")")
		} else if i+1 < len(lines) {
			val = strings.TrimSuffix(strings.TrimSpace(lines[i+1]), ")")
		}
		out[name] = strings.TrimSpace(val)
	}
	return out
}

func sortTokenEnd(s string) int {
	if strings.HasPrefix(s, "(") {
		depth := 0
		for i, c := range s {
			if c == '(' {
				depth++
			} else if c == ')' {
				depth--
				if depth == 0 {
					return i + 1
				}
			}
		}
		return len(s)
	}
	if k := strings.IndexAny(s, " \t"); k >= 0 {
		return k
	}
	return len(s)
}

func smtInt(v string) (*big.Int, bool) {
	v = strings.TrimSpace(v)
	neg := false
	if strings.HasPrefix(v, "(-") {
		neg = true
		v = strings.TrimSpace(strings.TrimSuffix(strings.TrimPrefix(v, "(-"), ")"))
	}
	n, ok := new(big.Int).SetString(v, 10)
	if !ok {
		return nil, false
	}
	if neg {
		n.Neg(n)
	}
	return n, true
}

type replayData struct {
	M map[string]string
}

// Int returns the model value of an integer constant (0 when absent).
func (r replayData) Int(name string) string {
	if n, ok := smtInt(r.M[name]); ok {
		return n.String()
	}
	return "0"
}

func (r replayData) Bool(name string) string {
	if strings.TrimSpace(r.M[name]) == "true" {
		return "true"
	}
	return "false"
}

// Unix converts an absolute-time model value to Unix nanoseconds.
func (r replayData) Unix(name string) string {
	n, ok := smtInt(r.M[name])
	if !ok {
		return "0"
	}
	k, _ := new(big.Int).SetString(timeK, 10)
	u := new(big.Int).Sub(n, k)
	// keep the value inside what time.Unix(0, ns) can take (models may pick times before year 1678)
	lim := new(big.Int).Lsh(big.NewInt(1), 62)
	if u.Cmp(lim) > 0 {
		u = lim
	}
	if u.Cmp(new(big.Int).Neg(lim)) < 0 {
		u = new(big.Int).Neg(lim)
	}
	return u.String()
}

func (r replayData) IsZeroTime(name string) string {
	n, ok := smtInt(r.M[name])
	if !ok || n.Sign() == 0 {
		return "true"
	}
	return "false"
}

// SliceLen / SliceOff of a Slice-sorted constant "(mk-slice obj off len cap)"
func (r replayData) slicePart(name string, idx int) string {
	v := r.M[name]
	v = strings.TrimPrefix(v, "(mk-slice ")
	// split respecting parentheses
	parts := []string{}
	depth := 0
	cur := ""
	for _, c := range v {
		switch {
		case c == '(':
			depth++
			cur += string(c)
		case c == ')':
			depth--
			if depth >= 0 {
				cur += string(c)
			}
		case c == ' ' && depth == 0:
			if cur != "" {
				parts = append(parts, cur)
			}
			cur = ""
		default:
			cur += string(c)
		}
	}
	if cur != "" {
		parts = append(parts, cur)
	}
	if idx < len(parts) {
		if n, ok := smtInt(parts[idx]); ok {
			return n.String()
		}
	}
	return "0"
}
func (r replayData) SliceObj(name string) string { return r.slicePart(name, 0) }
func (r replayData) SliceOff(name string) string { return r.slicePart(name, 1) }
func (r replayData) SliceLen(name string) string { return r.slicePart(name, 2) }
func (r replayData) SliceCap(name string) string { return r.slicePart(name, 3) }

// shrink re-solves the failed obligation with small-size bounds so that the replay can build the inputs.
func shrinkModel(o *Obligation, dir string) string {
	if o.tx == nil {
		return o.Model
	}
	extra := []string{}
	for _, p := range o.tx.fn.Params {
		t, ok := o.tx.vals[p]
		if !ok {
			continue
		}
		if t.Sort == "Slice" {
			extra = append(extra, fmt.Sprintf("(assert (and (<= (s-cap %s) 256) (<= (s-off %s) 16)))", t.S, t.S))
		}
		if isTimeType(p.Type()) {
			// a date between 1970 and 2100 (or the zero time)
			extra = append(extra, fmt.Sprintf("(assert (or (= %s 0) (and (> %s %s) (< %s (+ %s 4102444800000000000)))))", t.S, t.S, timeK, t.S, timeK))
		}
	}
	if len(extra) == 0 {
		return o.Model
	}
	o2 := *o
	o2.Extra = append(append([]string{}, o.Extra...), extra...)
	f := filepath.Join(dir, "shrink.smt2")
	os.WriteFile(f, []byte(o2.smt()), 0o644)
	ctx := context.Background()
	for _, s := range solvers[:2] {
		r := runSolver(ctx, s, 20, f)
		if r.status == "sat" {
			return r.out
		}
	}
	return o.Model
}

// writeReplay records a failed obligation under /verif/replays and tries to reproduce it on the real code.
func writeReplay(prop string, o *Obligation, s *Session) string {
	dir := filepath.Join(verifDir, "replays", prop, sanitize(o.Name))
	os.RemoveAll(dir)
	os.MkdirAll(dir, 0o755)
	model := o.Model
	if o.Status == "failed" && model != "" {
		model = shrinkModel(o, dir)
	}
	var info bytes.Buffer
	fmt.Fprintf(&info, "property: %s\nfailed obligation: %s\nkind: %s\nstatus: %s (solver %s, %.2fs)\ngoal (contract syntax): %s\n", prop, o.Name, o.Kind, o.Status, o.Solver, o.TimeS, o.Src)
	fmt.Fprintf(&info, "\n--- solver output ---\n%s\n", o.Output)
	if model != "" {
		fmt.Fprintf(&info, "\n--- model ---\n%s\n", model)
	}
	obFile := filepath.Join(dir, "obligation.txt")
	os.WriteFile(obFile, info.Bytes(), 0o644)
	if o.tx != nil {
		os.WriteFile(filepath.Join(dir, "vc.smt2"), []byte(o.smt()), 0o644)
	}
	for _, rule := range loadReplayRules() {
		if ok, _ := regexp.MatchString(rule.Pattern, o.Name); !ok {
			continue
		}
		if !rule.Witness && (o.Status != "failed" || model == "") {
			continue
		}
		tpl, err := template.ParseFiles(filepath.Join(verifDir, "replay", rule.Template))
		if err != nil {
			fmt.Fprintf(&info, "\nreplay template error: %v\n", err)
			break
		}
		var src bytes.Buffer
		rd := replayData{M: parseModel(model)}
		if err := tpl.Execute(&src, rd); err != nil {
			fmt.Fprintf(&info, "\nreplay template error: %v\n", err)
			break
		}
		testFile := filepath.Join(dir, "replay_test.go")
		os.WriteFile(testFile, src.Bytes(), 0o644)
		pkgDir := filepath.Join(repoDir, rule.Pkg)
		ov := map[string]map[string]string{"Replace": {filepath.Join(pkgDir, "zz_zvreplay_test.go"): testFile}}
		ob, _ := json.Marshal(ov)
		ovFile := filepath.Join(dir, "overlay.json")
		os.WriteFile(ovFile, ob, 0o644)
		out, failed := runReplay(pkgDir, ovFile)
		os.WriteFile(filepath.Join(dir, "replay.out"), []byte(out), 0o644)
		if failed && strings.Contains(out, "ZVREPLAY-REPRODUCED") {
			o.replayed = true
			return testFile
		}
		fmt.Fprintf(&info, "\nreplay did not reproduce the violation on the real code (see replay.out)\n")
		os.WriteFile(obFile, info.Bytes(), 0o644)
		break
	}
	return obFile
}

func runReplay(pkgDir, overlay string) (string, bool) {
	ctx, cancel := context.WithTimeout(context.Background(), 180*time.Second)
	defer cancel()
	cmd := exec.CommandContext(ctx, "bash", "-c", fmt.Sprintf("ulimit -v 8000000; cd %s && go test -overlay %s -vet=off -count=1 -timeout 60s -run '^TestZVReplay$' . 2>&1 | grep -v '^DEBUG\\|^TRACE' | tail -40", pkgDir, overlay))
	cmd.Env = append(os.Environ(), "GOFLAGS=-mod=mod", "GOPROXY=off", "GOSUMDB=off", "GOTOOLCHAIN=local")
	out, _ := cmd.CombinedOutput()
	s := string(out)
	return s, strings.Contains(s, "FAIL")
}
