package main

// Symbolic state: heap components, allocation counter, local cells, ghost variables.

import (
	"fmt"
	"go/types"
	"sort"
	"strings"

	"golang.org/x/tools/go/ssa"
)

type CompKind int

const (
	compField CompKind = iota // fd_T_f : Array Int sort(f)
	compElem                  // el_T   : Array Int (Array Int sort(T))
	compCell                  // ce_T   : Array Int sort(T)
)

type Comp struct {
	Name  string
	Kind  CompKind
	VSort string // sort of the stored value
	VT    types.Type
}

func (c *Comp) sort() string {
	if c.Kind == compElem {
		return "(Array Int (Array Int " + c.VSort + "))"
	}
	return "(Array Int " + c.VSort + ")"
}

type State struct {
	epoch  int
	heaps  map[string]string
	alloc  string
	hv     string
	locals map[ssa.Value]Term
	ghost  map[string]Term
}

func (s *State) clone() *State {
	n := &State{epoch: s.epoch, alloc: s.alloc, hv: s.hv, heaps: map[string]string{}, locals: map[ssa.Value]Term{}, ghost: map[string]Term{}}
	for k, v := range s.heaps {
		n.heaps[k] = v
	}
	for k, v := range s.locals {
		n.locals[k] = v
	}
	for k, v := range s.ghost {
		n.ghost[k] = v
	}
	return n
}

type PathEl struct {
	IsIndex bool
	Field   int
	SName   string        // struct datatype name
	ST      *types.Struct // struct type
	Index   string
	ASort   string // array sort for index elements
}

type LocKind int

const (
	locHeap LocKind = iota
	locLocal
)

type Loc struct {
	Kind  LocKind
	Comp  *Comp
	Ref   string // ref (field/cell) or obj (elem)
	Idx   string // absolute element index for compElem
	Local ssa.Value
	Path  []PathEl
	T     types.Type // Go type of the value at this location
}

// ---- translator-level heap plumbing ----

type HeapEnv struct {
	d          *Decls
	comps      map[string]*Comp
	nEpoch     int
	epochAlloc map[int]string // allocation counter when the epoch's implicit heap constants came into being
}

func (h *HeapEnv) comp(name string, kind CompKind, vt types.Type) *Comp {
	if c, ok := h.comps[name]; ok {
		return c
	}
	c := &Comp{Name: name, Kind: kind, VSort: h.d.sortOf(vt), VT: vt}
	h.comps[name] = c
	return c
}

func (h *HeapEnv) fieldComp(st types.Type, idx int) *Comp {
	u := st.Underlying().(*types.Struct)
	name := "fd_" + sanitize(shortType(st)) + "_" + sanitize(u.Field(idx).Name())
	return h.comp(name, compField, u.Field(idx).Type())
}

func (h *HeapEnv) elemComp(et types.Type) *Comp {
	return h.comp("el_"+sanitize(shortType(et)), compElem, et)
}

func (h *HeapEnv) cellComp(t types.Type) *Comp {
	return h.comp("ce_"+sanitize(shortType(t)), compCell, t)
}

func (h *HeapEnv) heapTerm(s *State, c *Comp) string {
	if t, ok := s.heaps[c.Name]; ok {
		return t
	}
	n := fmt.Sprintf("H%d_%s", s.epoch, c.Name)
	h.d.declConst(n, c.sort())
	return n
}

func (h *HeapEnv) ghostTerm(s *State, name, sort string) Term {
	if t, ok := s.ghost[name]; ok {
		return t
	}
	n := "G0_" + sanitize(name)
	h.d.declConst(n, sort)
	return Term{S: n, Sort: sort}
}

func (h *HeapEnv) newEpoch() int {
	h.nEpoch++
	return h.nEpoch
}

// havocAll returns a state where every heap component is unknown (locals and ghosts are kept).
func (h *HeapEnv) havocAll(s *State) *State {
	n := s.clone()
	n.epoch = h.newEpoch()
	n.heaps = map[string]string{}
	n.hv = h.d.fresh("hv", "Int")
	a := h.d.fresh("alloc", "Int")
	n.alloc = a
	h.noteEpochAlloc(n.epoch, a)
	return n
}

// noteEpochAlloc records the allocation counter at the creation of a heap epoch: every pointer stored in a component
// that has not been written since (its term is still the epoch's implicit constant) is older than that.
func (h *HeapEnv) noteEpochAlloc(epoch int, alloc string) {
	if h.epochAlloc == nil {
		h.epochAlloc = map[int]string{}
	}
	h.epochAlloc[epoch] = alloc
}

// loadBound: an upper bound (exclusive) for object identities read from component c in state s.
func (h *HeapEnv) loadBound(s *State, c *Comp) string {
	if c != nil {
		if _, explicit := s.heaps[c.Name]; !explicit {
			if a, ok := h.epochAlloc[s.epoch]; ok {
				return a
			}
		}
	}
	return s.alloc
}

func (h *HeapEnv) projectPath(base string, path []PathEl) string {
	cur := base
	for _, p := range path {
		if p.IsIndex {
			cur = sapp("select", cur, p.Index)
		} else {
			cur = sapp(h.d.fieldSel(p.SName, p.ST, p.Field), cur)
		}
	}
	return cur
}

func (h *HeapEnv) updatePath(base string, path []PathEl, val string) string {
	if len(path) == 0 {
		return val
	}
	p := path[0]
	if p.IsIndex {
		inner := h.updatePath(sapp("select", base, p.Index), path[1:], val)
		return sapp("store", base, p.Index, inner)
	}
	parts := []string{}
	for i := 0; i < p.ST.NumFields(); i++ {
		sel := sapp(h.d.fieldSel(p.SName, p.ST, i), base)
		if i == p.Field {
			parts = append(parts, h.updatePath(sel, path[1:], val))
		} else {
			parts = append(parts, sel)
		}
	}
	return sapp("mk_"+p.SName, parts...)
}

func (h *HeapEnv) readBase(s *State, l *Loc) string {
	switch l.Kind {
	case locLocal:
		if t, ok := s.locals[l.Local]; ok {
			return t.S
		}
		// initial value of a private captured cell
		n := "fv0_" + sanitize(l.Local.Name())
		var vt types.Type
		if pt, ok := l.Local.Type().Underlying().(*types.Pointer); ok {
			vt = pt.Elem()
		}
		h.d.declConst(n, h.d.sortOf(vt))
		return n
	}
	ht := h.heapTerm(s, l.Comp)
	if l.Comp.Kind == compElem {
		return sapp("select", sapp("select", ht, l.Ref), l.Idx)
	}
	return sapp("select", ht, l.Ref)
}

func (h *HeapEnv) read(s *State, l *Loc) Term {
	b := h.readBase(s, l)
	return Term{S: h.projectPath(b, l.Path), Sort: h.d.sortOf(l.T), GT: l.T}
}

// write returns a new state; bumpHV says whether the heap version changes (non-local writes).
func (h *HeapEnv) write(s *State, l *Loc, val string) *State {
	n := s.clone()
	b := h.readBase(s, l)
	nb := h.updatePath(b, l.Path, val)
	switch l.Kind {
	case locLocal:
		var vt types.Type
		if pt, ok := l.Local.Type().Underlying().(*types.Pointer); ok {
			vt = pt.Elem()
		}
		n.locals[l.Local] = Term{S: nb, Sort: h.d.sortOf(vt), GT: vt}
		return n
	}
	ht := h.heapTerm(s, l.Comp)
	if l.Comp.Kind == compElem {
		n.heaps[l.Comp.Name] = sapp("store", ht, l.Ref, sapp("store", sapp("select", ht, l.Ref), l.Idx, nb))
	} else {
		n.heaps[l.Comp.Name] = sapp("store", ht, l.Ref, nb)
	}
	n.hv = h.d.fresh("hv", "Int")
	return n
}

// ModRegion is a resolved item of a modifies clause.
type ModRegion struct {
	Comp     *Comp
	Ref      string // obj or ref
	Lo, Hi   string // absolute index range for compElem (half-open)
	ConstLen int    // >0: Hi-Lo is this literal (quantifier-free havoc possible)
}

func (m ModRegion) contains(o, p string) string {
	if m.Comp.Kind == compElem {
		return sand("(= "+o+" "+m.Ref+")", "(<= "+m.Lo+" "+p+")", "(< "+p+" "+m.Hi+")")
	}
	return "(= " + o + " " + m.Ref + ")"
}

// frameFormula says: every location of comp allocated before `alloc` and outside regs has the same content in after and before.
// With quant=true it is a quantified assumption; with quant=false o,p must be fresh skolem constants supplied by the caller.
func frameFormula(c *Comp, regs []ModRegion, before, after, alloc string, quant bool, o, p string) string {
	in := []string{}
	for _, r := range regs {
		if r.Comp == c {
			in = append(in, r.contains(o, p))
		}
	}
	guard := sand("(< "+o+" "+alloc+")", snot(sor(in...)))
	var eq, pat string
	if c.Kind == compElem {
		eq = fmt.Sprintf("(= (select (select %s %s) %s) (select (select %s %s) %s))", after, o, p, before, o, p)
		pat = fmt.Sprintf("(select (select %s %s) %s)", after, o, p)
	} else {
		eq = fmt.Sprintf("(= (select %s %s) (select %s %s))", after, o, before, o)
		pat = fmt.Sprintf("(select %s %s)", after, o)
	}
	body := simp(guard, eq)
	if !quant {
		return body
	}
	if c.Kind == compElem {
		return fmt.Sprintf("(forall ((%s Int) (%s Int)) (! %s :pattern (%s)))", o, p, body, pat)
	}
	return fmt.Sprintf("(forall ((%s Int)) (! %s :pattern (%s)))", o, body, pat)
}

// mergeStates builds the state at a join point. conds[i] is the edge predicate of incoming state i.
func (h *HeapEnv) mergeStates(states []*State, conds []string, assume func(string)) *State {
	if len(states) == 1 {
		return states[0].clone()
	}
	n := states[0].clone()
	sameEpoch := true
	for _, s := range states[1:] {
		if s.epoch != states[0].epoch {
			sameEpoch = false
		}
	}
	if !sameEpoch {
		n.epoch = h.newEpoch()
	}
	// heaps
	names := map[string]bool{}
	for _, s := range states {
		for k := range s.heaps {
			names[k] = true
		}
	}
	if !sameEpoch {
		for k := range h.comps {
			names[k] = true
		}
	}
	keys := []string{}
	for k := range names {
		keys = append(keys, k)
	}
	sort.Strings(keys)
	n.heaps = map[string]string{}
	for _, k := range keys {
		c := h.comps[k]
		terms := []string{}
		same := true
		for _, s := range states {
			t := h.heapTerm(s, c)
			terms = append(terms, t)
			if t != terms[0] {
				same = false
			}
		}
		if same {
			if _, explicit := states[0].heaps[k]; explicit || !sameEpoch {
				n.heaps[k] = terms[0]
			}
			continue
		}
		m := h.d.fresh("Hm_"+k, c.sort())
		for i, t := range terms {
			assume(simp(conds[i], "(= "+m+" "+t+")"))
		}
		n.heaps[k] = m
	}
	mergeScalar := func(get func(*State) string, sort, prefix string) string {
		first := get(states[0])
		same := true
		for _, s := range states[1:] {
			if get(s) != first {
				same = false
			}
		}
		if same {
			return first
		}
		m := h.d.fresh(prefix, sort)
		for i, s := range states {
			assume(simp(conds[i], "(= "+m+" "+get(s)+")"))
		}
		return m
	}
	n.alloc = mergeScalar(func(s *State) string { return s.alloc }, "Int", "allocm")
	if !sameEpoch {
		h.noteEpochAlloc(n.epoch, n.alloc)
	}
	n.hv = mergeScalar(func(s *State) string { return s.hv }, "Int", "hvm")
	// locals
	lkeys := map[ssa.Value]bool{}
	for _, s := range states {
		for k := range s.locals {
			lkeys[k] = true
		}
	}
	n.locals = map[ssa.Value]Term{}
	for k := range lkeys {
		var first Term
		have := false
		same := true
		all := true
		for _, s := range states {
			t, ok := s.locals[k]
			if !ok {
				all = false
				continue
			}
			if !have {
				first = t
				have = true
			} else if t.S != first.S {
				same = false
			}
		}
		if !all {
			if _, isFV := k.(*ssa.FreeVar); !isFV {
				// defined on some paths only: not live at the join (SSA dominance), drop
				continue
			}
		}
		if same && all {
			n.locals[k] = first
			continue
		}
		m := h.d.fresh("lm_"+k.Name(), first.Sort)
		for i, s := range states {
			t, ok := s.locals[k]
			var ts string
			if ok {
				ts = t.S
			} else {
				ts = h.readBase(s, &Loc{Kind: locLocal, Local: k})
			}
			assume(simp(conds[i], "(= "+m+" "+ts+")"))
		}
		n.locals[k] = Term{S: m, Sort: first.Sort, GT: first.GT}
	}
	// ghosts
	gkeys := map[string]string{}
	for _, s := range states {
		for k, v := range s.ghost {
			gkeys[k] = v.Sort
		}
	}
	n.ghost = map[string]Term{}
	gk := []string{}
	for k := range gkeys {
		gk = append(gk, k)
	}
	sort.Strings(gk)
	for _, k := range gk {
		srt := gkeys[k]
		terms := []string{}
		same := true
		for _, s := range states {
			t := h.ghostTerm(s, k, srt).S
			terms = append(terms, t)
			if t != terms[0] {
				same = false
			}
		}
		if same {
			n.ghost[k] = Term{S: terms[0], Sort: srt}
			continue
		}
		m := h.d.fresh("gm_"+k, srt)
		for i, t := range terms {
			assume(simp(conds[i], "(= "+m+" "+t+")"))
		}
		n.ghost[k] = Term{S: m, Sort: srt}
	}
	return n
}

func describeLoc(l *Loc) string {
	if l.Kind == locLocal {
		return "local " + l.Local.Name()
	}
	parts := []string{l.Comp.Name, l.Ref}
	if l.Comp.Kind == compElem {
		parts = append(parts, l.Idx)
	}
	return strings.Join(parts, ":")
}
