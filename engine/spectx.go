package main

// Translation of contract expressions to SMT terms.

import (
	"fmt"
	"go/constant"
	"go/types"
	"regexp"
	"strings"

	"golang.org/x/tools/go/ssa"
)

type SpecEnv struct {
	tx           *FnTx
	vars         map[string]Term
	locs         map[string]*Loc
	cur, old     *State
	pkg          *types.Package
	resolve      func(name string) (Term, *Loc, bool) // local variable resolver (loop invariants)
	nq           int
	allocOld     string // alloc counter of the old state (for fresh())
	inPureFacts  bool
	preferLocals bool
	paramNames   map[string]bool // loop invariants / call assertions: a reassigned parameter means its current value
	loopHead     *ssa.BasicBlock // loop clauses: header of the loop the clause belongs to (for entry(x) and head(x))
}

type specErr struct{ msg string }

func (e *SpecEnv) fail(format string, a ...interface{}) {
	panic(specErr{fmt.Sprintf(format, a...)})
}

func (e *SpecEnv) child() *SpecEnv {
	n := *e
	n.vars = map[string]Term{}
	for k, v := range e.vars {
		n.vars[k] = v
	}
	return &n
}

// Tr translates an expression; returns an error instead of panicking.
func (e *SpecEnv) Tr(x SExpr) (t Term, err error) {
	defer func() {
		if r := recover(); r != nil {
			if se, ok := r.(specErr); ok {
				err = fmt.Errorf("%s (in %s)", se.msg, x.String())
				return
			}
			panic(r)
		}
	}()
	t = e.tr(x, false)
	return
}

func (e *SpecEnv) TrBool(x SExpr) (string, error) {
	t, err := e.Tr(x)
	if err != nil {
		return "", err
	}
	if t.Sort != "Bool" {
		return "", fmt.Errorf("expected Bool, got %s in %s", t.Sort, x.String())
	}
	return t.S, nil
}

func (e *SpecEnv) state(old bool) *State {
	if old && e.old != nil {
		return e.old
	}
	return e.cur
}

func (e *SpecEnv) d() *Decls { return e.tx.d }

func (e *SpecEnv) tr(x SExpr, old bool) Term {
	switch n := x.(type) {
	case *SInt:
		return Term{S: n.V, Sort: "Int"}
	case *SStr:
		return Term{S: e.d().strLit(n.V), Sort: "Str"}
	case *SBool:
		if n.V {
			return Term{S: "true", Sort: "Bool"}
		}
		return Term{S: "false", Sort: "Bool"}
	case *SNil:
		return Term{S: "0", Sort: "Nil"}
	case *SOld:
		return e.tr(n.X, true)
	case *SIdent:
		return e.ident(n.Name, old)
	case *SUnary:
		v := e.tr(n.X, old)
		if n.Op == "!" {
			if v.Sort != "Bool" {
				e.fail("! applied to %s", v.Sort)
			}
			return Term{S: snot(v.S), Sort: "Bool"}
		}
		if v.Sort == "Real" {
			return Term{S: "(- " + v.S + ")", Sort: "Real"}
		}
		return Term{S: "(- " + v.S + ")", Sort: "Int"}
	case *SBinary:
		return e.binary(n, old)
	case *SCond:
		c := e.tr(n.C, old)
		a := e.tr(n.A, old)
		b := e.tr(n.B, old)
		a, b = e.unify(a, b)
		return Term{S: "(ite " + c.S + " " + a.S + " " + b.S + ")", Sort: a.Sort, GT: a.GT}
	case *SLet:
		v := e.tr(n.Val, old)
		c := e.child()
		c.vars[n.Name] = v
		return c.tr(n.Body, old)
	case *SQuant:
		c := e.child()
		e.tx.nq++
		name := fmt.Sprintf("%s_q%d", n.Var, e.tx.nq)
		c.vars[n.Var] = Term{S: name, Sort: "Int"}
		// Absolute-position form: when the bound variable is used (additively) as a slice index S[v + rest], quantify
		// over the absolute position p = off(S) + v + rest instead, so that the heap read is (select (select H obj) p)
		// - a trigger that matches the ground reads produced by copy/append/store, whatever the slice offsets are.
		if base, rest, ok := absIndexCandidate(n.Body, n.Var); ok {
			func() {
				defer func() {
					if r := recover(); r != nil {
						if _, isSpec := r.(specErr); !isSpec {
							panic(r)
						}
					}
				}()
				bs := e.tr(base, false)
				if bs.Sort != "Slice" {
					return
				}
				vt := "(- " + name + " (s-off " + bs.S + "))"
				if rest != nil {
					rt := e.tr(rest, old)
					vt = "(- " + vt + " " + rt.S + ")"
				}
				c.vars[n.Var] = Term{S: vt, Sort: "Int"}
			}()
		}
		body := c.tr(n.Body, old)
		if body.Sort != "Bool" {
			e.fail("quantifier body must be Bool")
		}
		rng := "true"
		if n.Lo != nil {
			lo := e.tr(n.Lo, old)
			hi := e.tr(n.Hi, old)
			vterm := c.vars[n.Var].S
			rng = sand("(<= "+lo.S+" "+vterm+")", "(< "+vterm+" "+hi.S+")")
		}
		if n.Kind == "forall" {
			return Term{S: "(forall ((" + name + " Int)) " + simp(rng, body.S) + ")", Sort: "Bool"}
		}
		return Term{S: "(exists ((" + name + " Int)) " + sand(rng, body.S) + ")", Sort: "Bool"}
	case *SField:
		v := e.tr(n.X, old)
		return e.field(v, n.Name, old)
	case *SIndex:
		v := e.tr(n.X, old)
		i := e.tr(n.I, old)
		return e.index(v, i, old)
	case *SSlice:
		v := e.tr(n.X, old)
		if v.Sort != "Slice" {
			e.fail("slicing a non-slice (%s)", v.Sort)
		}
		lo := "0"
		if n.Lo != nil {
			lo = e.tr(n.Lo, old).S
		}
		hi := "(s-len " + v.S + ")"
		if n.Hi != nil {
			hi = e.tr(n.Hi, old).S
		}
		return Term{S: fmt.Sprintf("(mk-slice (s-obj %s) (+ (s-off %s) %s) (- %s %s) (- (s-cap %s) %s))", v.S, v.S, lo, hi, lo, v.S, lo), Sort: "Slice", GT: v.GT}
	case *SCall:
		return e.call(n, old)
	case *SMethod:
		return e.method(n, old)
	}
	e.fail("unsupported expression %T", x)
	return Term{}
}

func (e *SpecEnv) unify(a, b Term) (Term, Term) {
	if a.Sort == b.Sort {
		return a, b
	}
	if a.Sort == "Nil" {
		return e.nilOf(b), b
	}
	if b.Sort == "Nil" {
		return a, e.nilOf(a)
	}
	if a.Sort == "Real" && b.Sort == "Int" {
		return a, Term{S: "(to_real " + b.S + ")", Sort: "Real"}
	}
	if a.Sort == "Int" && b.Sort == "Real" {
		return Term{S: "(to_real " + a.S + ")", Sort: "Real"}, b
	}
	e.fail("sort mismatch %s vs %s (%s / %s)", a.Sort, b.Sort, a.S, b.S)
	return a, b
}

func (e *SpecEnv) nilOf(like Term) Term {
	switch like.Sort {
	case "Slice":
		return Term{S: "(mk-slice 0 0 0 0)", Sort: "Slice", GT: like.GT}
	case "Iface":
		return Term{S: "(mk-iface 0 0)", Sort: "Iface", GT: like.GT}
	case "Nil":
		return Term{S: "0", Sort: "Int"}
	}
	return Term{S: "0", Sort: like.Sort, GT: like.GT}
}

func (e *SpecEnv) binary(n *SBinary, old bool) Term {
	a := e.tr(n.X, old)
	b := e.tr(n.Y, old)
	switch n.Op {
	case "&&":
		return Term{S: sand(a.S, b.S), Sort: "Bool"}
	case "||":
		return Term{S: sor(a.S, b.S), Sort: "Bool"}
	case "==>":
		return Term{S: simp(a.S, b.S), Sort: "Bool"}
	case "<==>":
		return Term{S: "(= " + a.S + " " + b.S + ")", Sort: "Bool"}
	case "==", "!=":
		var s string
		if a.Sort == "Nil" || b.Sort == "Nil" {
			v := a
			if a.Sort == "Nil" {
				v = b
			}
			switch v.Sort {
			case "Slice":
				s = "(= (s-obj " + v.S + ") 0)"
			case "Iface":
				s = "(= (i-typ " + v.S + ") 0)"
			case "Nil":
				s = "true"
			default:
				s = "(= " + v.S + " 0)"
			}
		} else {
			a, b = e.unify(a, b)
			s = "(= " + a.S + " " + b.S + ")"
		}
		if n.Op == "!=" {
			s = snot(s)
		}
		return Term{S: s, Sort: "Bool"}
	case "<", "<=", ">", ">=":
		a, b = e.unify(a, b)
		return Term{S: "(" + n.Op + " " + a.S + " " + b.S + ")", Sort: "Bool"}
	case "+", "-", "*":
		if a.Sort == "Str" && n.Op == "+" {
			return Term{S: "(strcat " + a.S + " " + b.S + ")", Sort: "Str"}
		}
		a, b = e.unify(a, b)
		gt := a.GT
		if gt == nil {
			gt = b.GT
		}
		return Term{S: "(" + n.Op + " " + a.S + " " + b.S + ")", Sort: a.Sort, GT: gt}
	case "/":
		a, b = e.unify(a, b)
		if a.Sort == "Real" {
			return Term{S: "(/ " + a.S + " " + b.S + ")", Sort: "Real"}
		}
		return Term{S: "(tdiv " + a.S + " " + b.S + ")", Sort: "Int"}
	case "%":
		return Term{S: "(tmod " + a.S + " " + b.S + ")", Sort: "Int"}
	}
	e.fail("unknown operator %s", n.Op)
	return Term{}
}

func (e *SpecEnv) ident(name string, old bool) Term {
	if e.preferLocals && e.resolve != nil && !old {
		if _, isParam := e.paramNames[name]; isParam {
			if t, l, ok := e.resolve(name); ok {
				if l != nil {
					return e.tx.h.read(e.state(old), l)
				}
				return t
			}
		}
	}
	if v, ok := e.vars[name]; ok {
		return v
	}
	if l, ok := e.locs[name]; ok {
		return e.tx.h.read(e.state(old), l)
	}
	if e.resolve != nil {
		if t, l, ok := e.resolve(name); ok {
			if l != nil {
				return e.tx.h.read(e.state(old), l)
			}
			return t
		}
	}
	if g, ok := e.tx.cs.Ghosts[name]; ok {
		return e.tx.h.ghostTerm(e.state(old), name, g.Sort)
	}
	if e.tx.c != nil {
		for _, cp := range e.tx.c.Captures {
			if cp.Name == name {
				if t, ok := e.state(old).ghost["cap!"+name]; ok {
					return t
				}
				z := map[string]string{"Iface": "(mk-iface 0 0)", "Int": "0", "Bool": "false", "Slice": "(mk-slice 0 0 0 0)", "Real": "0.0"}[cp.Sort]
				return Term{S: z, Sort: cp.Sort}
			}
		}
	}
	if e.pkg != nil {
		if obj := e.pkg.Scope().Lookup(name); obj != nil {
			switch o := obj.(type) {
			case *types.Const:
				return e.constTerm(o.Val(), o.Type())
			case *types.Var:
				if g := e.tx.globalFor(o); g != nil {
					if t, ok := e.tx.constGlobal(g); ok {
						return t
					}
					l := e.tx.locOfPointer(g, e.state(old))
					if l != nil {
						return e.tx.h.read(e.state(old), l)
					}
				}
			}
		}
	}
	e.fail("unknown identifier %q", name)
	return Term{}
}

func (e *SpecEnv) constTerm(v constant.Value, t types.Type) Term {
	switch v.Kind() {
	case constant.Int:
		return Term{S: intLit(v.ExactString()), Sort: "Int", GT: t}
	case constant.Bool:
		return Term{S: fmt.Sprint(constant.BoolVal(v)), Sort: "Bool", GT: t}
	case constant.String:
		return Term{S: e.d().strLit(constant.StringVal(v)), Sort: "Str", GT: t}
	case constant.Float:
		f, _ := constant.Float64Val(v)
		return Term{S: realLit(f), Sort: "Real", GT: t}
	}
	e.fail("unsupported constant kind")
	return Term{}
}

func realLit(f float64) string {
	s := fmt.Sprintf("%.17f", f)
	if f < 0 {
		return "(- " + s[1:] + ")"
	}
	return s
}

func derefType(t types.Type) (types.Type, bool) {
	if t == nil {
		return nil, false
	}
	if p, ok := t.Underlying().(*types.Pointer); ok {
		return p.Elem(), true
	}
	return t, false
}

// field selects x.name following Go's selector rules (embedded fields, implicit dereference).
func (e *SpecEnv) field(v Term, name string, old bool) Term {
	if v.GT == nil {
		e.fail("field %s of untyped value %s", name, v.S)
	}
	obj, path, _ := types.LookupFieldOrMethod(v.GT, true, nil, name)
	if obj == nil && e.pkg != nil {
		obj, path, _ = types.LookupFieldOrMethod(v.GT, true, e.pkg, name)
	}
	if obj == nil {
		// unexported field of another package: search manually
		obj, path = lookupFieldAnyPkg(v.GT, name)
	}
	fv, ok := obj.(*types.Var)
	if !ok || fv == nil {
		e.fail("no field %s in %s", name, shortType(v.GT))
	}
	cur := v
	for _, idx := range path {
		cur = e.selectField(cur, idx, old)
	}
	return cur
}

func lookupFieldAnyPkg(t types.Type, name string) (types.Object, []int) {
	bt, _ := derefType(t)
	st, ok := bt.Underlying().(*types.Struct)
	if !ok {
		return nil, nil
	}
	for i := 0; i < st.NumFields(); i++ {
		if st.Field(i).Name() == name {
			return st.Field(i), []int{i}
		}
	}
	for i := 0; i < st.NumFields(); i++ {
		if st.Field(i).Embedded() {
			if o, p := lookupFieldAnyPkg(st.Field(i).Type(), name); o != nil {
				return o, append([]int{i}, p...)
			}
		}
	}
	return nil, nil
}

var quantVarRe = regexp.MustCompile(`_q[0-9]+`)

func (e *SpecEnv) selectField(v Term, idx int, old bool) Term {
	bt, isPtr := derefType(v.GT)
	st, ok := bt.Underlying().(*types.Struct)
	if !ok {
		e.fail("selecting field of non-struct %s", shortType(v.GT))
	}
	ft := st.Field(idx).Type()
	if isPtr {
		c := e.tx.h.fieldComp(bt, idx)
		ht := e.tx.h.heapTerm(e.state(old), c)
		res := Term{S: sapp("select", ht, v.S), Sort: e.d().sortOf(ft), GT: ft}
		if !quantVarRe.MatchString(v.S) {
			// heap typing for ground reads in specifications, as for loads in the code: object identities stored in a
			// component are older than the component's last modification
			if inv := e.tx.typeInv(res, ft, e.tx.h.loadBound(e.state(old), c), 0); inv != "true" {
				e.tx.assume(inv)
			}
		}
		return res
	}
	sname := e.d().sortOf(bt)
	return Term{S: sapp(e.d().fieldSel(sname, st, idx), v.S), Sort: e.d().sortOf(ft), GT: ft}
}

func (e *SpecEnv) index(v, i Term, old bool) Term {
	if v.Sort == "Slice" {
		var et types.Type
		if v.GT != nil {
			if sl, ok := v.GT.Underlying().(*types.Slice); ok {
				et = sl.Elem()
			}
		}
		if et == nil {
			e.fail("indexing slice of unknown element type: %s", v.S)
		}
		c := e.tx.h.elemComp(et)
		ht := e.tx.h.heapTerm(e.state(old), c)
		res := Term{S: fmt.Sprintf("(select (select %s (s-obj %s)) (+ (s-off %s) %s))", ht, v.S, v.S, i.S), Sort: c.VSort, GT: et}
		if !quantVarRe.MatchString(v.S) && !quantVarRe.MatchString(i.S) {
			if inv := e.tx.typeInv(res, et, e.tx.h.loadBound(e.state(old), c), 0); inv != "true" {
				e.tx.assume(inv)
			}
		}
		return res
	}
	if strings.HasPrefix(v.Sort, "(Array Int ") {
		var et types.Type
		if v.GT != nil {
			if a, ok := v.GT.Underlying().(*types.Array); ok {
				et = a.Elem()
			}
		}
		return Term{S: sapp("select", v.S, i.S), Sort: strings.TrimSuffix(strings.TrimPrefix(v.Sort, "(Array Int "), ")"), GT: et}
	}
	if mt, ok := mapTypeOf(v.GT); ok {
		_, val := e.tx.mapComps(mt)
		return Term{S: sapp("select", sapp("select", e.tx.h.heapTerm(e.state(old), val), v.S), i.S), Sort: e.d().sortOf(mt.Elem()), GT: mt.Elem()}
	}
	e.fail("cannot index %s", v.Sort)
	return Term{}
}

func mapTypeOf(t types.Type) (*types.Map, bool) {
	if t == nil {
		return nil, false
	}
	m, ok := t.Underlying().(*types.Map)
	return m, ok
}

func (e *SpecEnv) byteHeap(old bool) string {
	c := e.tx.h.elemComp(types.Typ[types.Uint8])
	return e.tx.h.heapTerm(e.state(old), c)
}

func (e *SpecEnv) call(n *SCall, old bool) Term {
	args := func() []Term {
		out := []Term{}
		for _, a := range n.Args {
			out = append(out, e.tr(a, old))
		}
		return out
	}
	need := func(k int) {
		if len(n.Args) != k {
			e.fail("%s expects %d arguments", n.Fn, k)
		}
	}
	switch n.Fn {
	case "len":
		need(1)
		a := args()[0]
		switch a.Sort {
		case "Slice":
			return Term{S: "(s-len " + a.S + ")", Sort: "Int"}
		case "Str":
			return Term{S: "(strlen " + a.S + ")", Sort: "Int"}
		}
		e.fail("len of %s", a.Sort)
	case "cap":
		need(1)
		return Term{S: "(s-cap " + args()[0].S + ")", Sort: "Int"}
	case "obj":
		need(1)
		return Term{S: "(s-obj " + args()[0].S + ")", Sort: "Int"}
	case "off":
		need(1)
		return Term{S: "(s-off " + args()[0].S + ")", Sort: "Int"}
	case "u64At", "u32At", "u16At":
		need(2)
		a := args()
		fn := map[string]string{"u64At": "be64", "u32At": "be32", "u16At": "be16"}[n.Fn]
		return Term{S: fmt.Sprintf("(%s (select %s (s-obj %s)) (+ (s-off %s) %s))", fn, e.byteHeap(old), a[0].S, a[0].S, a[1].S), Sort: "Int"}
	case "arr":
		// the whole backing array of a byte slice (as a value), e.g. as an argument of an uninterpreted spec function
		need(1)
		a := args()[0]
		return Term{S: fmt.Sprintf("(select %s (s-obj %s))", e.byteHeap(old), a.S), Sort: "(Array Int Int)"}
	case "asTime":
		need(1)
		a := args()[0]
		return Term{S: a.S, Sort: "Int", GT: e.tx.timeType()}
	case "abs":
		need(1)
		a := args()[0]
		return Term{S: a.S, Sort: "Int"}
	case "unixNano":
		need(1)
		return Term{S: "(- " + args()[0].S + " " + timeK + ")", Sort: "Int"}
	case "timeOfUnix":
		need(1)
		return Term{S: "(+ " + args()[0].S + " " + timeK + ")", Sort: "Int", GT: e.tx.timeType()}
	case "i64of", "u64of", "clamp64", "isign":
		need(1)
		return Term{S: sapp(n.Fn, args()[0].S), Sort: "Int"}
	case "sign":
		need(1)
		return Term{S: sapp("isign", args()[0].S), Sort: "Int"}
	case "min", "max":
		need(2)
		a := args()
		return Term{S: sapp("i"+n.Fn, a[0].S, a[1].S), Sort: "Int"}
	case "fdiv", "tdiv", "tmod":
		need(2)
		a := args()
		return Term{S: sapp(n.Fn, a[0].S, a[1].S), Sort: "Int"}
	case "emod":
		need(2)
		a := args()
		return Term{S: sapp("mod", a[0].S, a[1].S), Sort: "Int"}
	case "toReal":
		need(1)
		a := args()[0]
		if a.Sort == "Real" {
			return a
		}
		return Term{S: "(to_real " + a.S + ")", Sort: "Real"}
	case "b2f", "f2b":
		need(1)
		e.d().declFun("f2b", []string{"Real"}, "Int")
		e.d().declFun("b2f", []string{"Int"}, "Real")
		e.d().add("ax:f2b", "(assert (forall ((x Real)) (! (and (= (b2f (f2b x)) x) (<= 0 (f2b x)) (<= (f2b x) 18446744073709551615)) :pattern ((f2b x)))))")
		a := args()[0]
		if n.Fn == "b2f" {
			return Term{S: "(b2f " + a.S + ")", Sort: "Real"}
		}
		return Term{S: "(f2b " + a.S + ")", Sort: "Int"}
	case "floor":
		need(1)
		return Term{S: "(to_int " + args()[0].S + ")", Sort: "Int"}
	case "typeOf":
		need(1)
		return Term{S: "(i-typ " + args()[0].S + ")", Sort: "Int"}
	case "valOf":
		need(1)
		return Term{S: "(i-val " + args()[0].S + ")", Sort: "Int"}
	case "isType":
		// isType(x, "pkg.T")
		need(2)
		a := e.tr(n.Args[0], old)
		ts, ok := n.Args[1].(*SStr)
		if !ok {
			e.fail("isType needs a string literal type name")
		}
		id := e.tx.typeIDByName(ts.V)
		if id < 0 {
			e.fail("isType: unknown type %q", ts.V)
		}
		return Term{S: fmt.Sprintf("(= (i-typ %s) %d)", a.S, id), Sort: "Bool"}
	case "unboxReal":
		need(1)
		e.d().boxDecl("Real")
		return Term{S: "(unbox_Real (i-val " + args()[0].S + "))", Sort: "Real"}
	case "unboxInt":
		need(1)
		e.d().boxDecl("Int")
		return Term{S: "(unbox_Int (i-val " + args()[0].S + "))", Sort: "Int"}
	case "unboxBool":
		need(1)
		e.d().boxDecl("Bool")
		return Term{S: "(unbox_Bool (i-val " + args()[0].S + "))", Sort: "Bool"}
	case "unboxStr":
		need(1)
		e.d().boxDecl("Str")
		return Term{S: "(unbox_Str (i-val " + args()[0].S + "))", Sort: "Str"}
	case "fresh":
		need(1)
		a := args()[0]
		ao := e.allocOld
		if ao == "" && e.old != nil {
			ao = e.old.alloc
		}
		if ao == "" {
			e.fail("fresh() outside a two-state context")
		}
		if a.Sort == "Slice" {
			return Term{S: sor("(= (s-obj "+a.S+") 0)", "(>= (s-obj "+a.S+") "+ao+")"), Sort: "Bool"}
		}
		return Term{S: "(>= " + a.S + " " + ao + ")", Sort: "Bool"}
	case "freshInLoop":
		// freshInLoop(x): x was allocated during the current iteration of the innermost enclosing loop
		need(1)
		a := args()[0]
		la := e.tx.loopAllocAt(e.tx.curBlock)
		if la == "" {
			e.fail("freshInLoop() used outside a loop")
		}
		if a.Sort == "Slice" {
			return Term{S: "(>= (s-obj " + a.S + ") " + la + ")", Sort: "Bool"}
		}
		return Term{S: "(>= " + a.S + " " + la + ")", Sort: "Bool"}
	case "calls", "lastarg", "lastret":
		id, ok := n.Args[0].(*SIdent)
		if !ok {
			e.fail("%s needs a function-valued identifier", n.Fn)
		}
		switch n.Fn {
		case "calls":
			need(1)
			return e.tx.h.ghostTerm(e.state(old), "calls!"+id.Name, "Int")
		default:
			need(2)
			k, ok := n.Args[1].(*SInt)
			if !ok {
				e.fail("%s index must be a literal", n.Fn)
			}
			srt, gt := e.tx.fnValSlotSort(id.Name, n.Fn == "lastarg", k.V)
			if srt == "" {
				e.fail("%s: cannot determine sort of slot %s of %s", n.Fn, k.V, id.Name)
			}
			t := e.tx.h.ghostTerm(e.state(old), n.Fn+"!"+id.Name+"!"+k.V, srt)
			t.GT = gt
			return t
		}
	case "captured":
		// captured(c): a call matching capture c's pattern has been executed on this path (so c holds its result)
		need(1)
		id, ok := n.Args[0].(*SIdent)
		if !ok {
			e.fail("captured needs the name of a capture")
		}
		if t, ok := e.state(old).ghost["capset!"+id.Name]; ok {
			return t
		}
		return Term{S: "false", Sort: "Bool"}
	case "entry", "head":
		// entry(x): value of the loop variable x when the loop was entered; head(x): its value at the start of the current
		// iteration (only meaningful in back-edge assertions). For a variable the loop does not assign both are x itself.
		need(1)
		id, ok := n.Args[0].(*SIdent)
		if !ok || e.loopHead == nil {
			e.fail("%s(x) needs a variable name and is only available in loop clauses", n.Fn)
		}
		for _, in := range e.loopHead.Instrs {
			ph, ok := in.(*ssa.Phi)
			if !ok {
				break
			}
			if ph.Comment != id.Name {
				continue
			}
			if n.Fn == "head" {
				return e.tx.val(ph)
			}
			for k, p := range e.loopHead.Preds {
				if !isBackEdge(p, e.loopHead) {
					return e.tx.coerce(e.tx.val(ph.Edges[k]), e.d().sortOf(ph.Type()))
				}
			}
		}
		return e.tr(n.Args[0], old)
	case "heapVersion":
		return Term{S: e.state(old).hv, Sort: "Int"}
	case "visited":
		// visited(k): key k has already been produced by the (unique) map iteration in scope
		need(1)
		k := args()[0]
		var found *Term
		if e.loopHead != nil {
			// inside a loop clause: the iteration driven by this loop's own `next`
			for _, in := range e.loopHead.Instrs {
				if nx, ok := in.(*ssa.Next); ok {
					if rg, ok := nx.Iter.(*ssa.Range); ok {
						if g, ok := e.state(old).ghost["visited!"+rg.Name()]; ok {
							gg := g
							found = &gg
						}
					}
				}
			}
		}
		for name, g := range e.state(old).ghost {
			if found != nil && e.loopHead != nil {
				break
			}
			if strings.HasPrefix(name, "visited!") {
				if found != nil {
					e.fail("visited(): more than one map iteration in scope")
				}
				gg := g
				found = &gg
			}
		}
		if found == nil {
			e.fail("visited(): no map iteration in scope")
		}
		return Term{S: sapp("select", found.S, k.S), Sort: "Bool"}
	case "has":
		// has(m, k): key k is present in map m
		need(2)
		a := args()
		mt, ok := mapTypeOf(a[0].GT)
		if !ok {
			e.fail("has(): first argument is not a map")
		}
		dom, _ := e.tx.mapComps(mt)
		return Term{S: sand("(not (= "+a[0].S+" 0))", sapp("select", sapp("select", e.tx.h.heapTerm(e.state(old), dom), a[0].S), a[1].S)), Sort: "Bool"}
	case "allvals_positive":
		// allvals_positive(m): every value stored in the integer-valued map m is > 0
		need(1)
		a := args()
		mt, ok := mapTypeOf(a[0].GT)
		if !ok {
			e.fail("allvals_positive(): argument is not a map")
		}
		dom, val := e.tx.mapComps(mt)
		ks := e.tx.d.sortOf(mt.Key())
		if e.tx.d.sortOf(mt.Elem()) != "Int" {
			e.fail("allvals_positive(): map values are not integers")
		}
		st := e.state(old)
		return Term{S: "(forall ((_mk " + ks + ")) (=> " + sapp("select", sapp("select", e.tx.h.heapTerm(st, dom), a[0].S), "_mk") + " (> " + sapp("select", sapp("select", e.tx.h.heapTerm(st, val), a[0].S), "_mk") + " 0)))", Sort: "Bool"}
	case "callsOn", "lastretOn", "lastargOn":
		// per-object call trace of a function-valued struct field: callsOn(obj, "field"), lastretOn(obj, "field", k)
		if len(n.Args) < 2 {
			e.fail("%s needs (object, \"field\"[, index])", n.Fn)
		}
		obj := e.tr(n.Args[0], old)
		fname, ok := n.Args[1].(*SStr)
		if !ok {
			e.fail("%s: field name must be a string literal", n.Fn)
		}
		if n.Fn == "callsOn" {
			g := e.tx.h.ghostTerm(e.state(old), "callsAt!"+fname.V, "(Array Int Int)")
			return Term{S: sapp("select", g.S, obj.S), Sort: "Int"}
		}
		need(3)
		k, ok := n.Args[2].(*SInt)
		if !ok {
			e.fail("%s index must be a literal", n.Fn)
		}
		srt, gt := e.tx.fnValSlotSort(fname.V, n.Fn == "lastargOn", k.V)
		if srt == "" {
			e.fail("%s: unknown function-valued field %s", n.Fn, fname.V)
		}
		kind := "lastretAt!"
		if n.Fn == "lastargOn" {
			kind = "lastargAt!"
		}
		g := e.tx.h.ghostTerm(e.state(old), kind+fname.V+"!"+k.V, "(Array Int "+srt+")")
		return Term{S: sapp("select", g.S, obj.S), Sort: srt, GT: gt}
	}
	if d, ok := e.tx.cs.Defines[n.Fn]; ok {
		if len(d.Params) != len(n.Args) {
			e.fail("%s expects %d arguments", n.Fn, len(d.Params))
		}
		c := e.child()
		for i, p := range d.Params {
			c.vars[p] = e.tr(n.Args[i], old)
		}
		// defines must not see caller's locals except through parameters; keep resolver for package consts
		return c.tr(d.Body, old)
	}
	if u, ok := e.tx.cs.UFs[n.Fn]; ok {
		if len(u.Args) != len(n.Args) {
			e.fail("uf %s expects %d arguments", n.Fn, len(u.Args))
		}
		e.d().declFun("uf_"+u.Name, u.Args, u.Ret)
		as := []string{}
		for i, a := range args() {
			if a.Sort == "Nil" {
				a = Term{S: "0", Sort: "Int"}
			}
			if a.Sort != u.Args[i] {
				if u.Args[i] == "Real" && a.Sort == "Int" {
					a = Term{S: "(to_real " + a.S + ")", Sort: "Real"}
				} else {
					e.fail("uf %s argument %d: got %s want %s", n.Fn, i, a.Sort, u.Args[i])
				}
			}
			as = append(as, a.S)
		}
		return Term{S: sapp("uf_"+u.Name, as...), Sort: u.Ret}
	}
	// pure Go function of the package
	if e.pkg != nil {
		if obj, ok := e.pkg.Scope().Lookup(n.Fn).(*types.Func); ok {
			fn := e.tx.prog.FuncValue(obj)
			if fn != nil {
				return e.pureCall(fn, nil, args(), old)
			}
		}
	}
	e.fail("unknown function %q", n.Fn)
	return Term{}
}

func (e *SpecEnv) pureCall(fn *ssa.Function, recv *Term, args []Term, old bool) Term {
	key := fnKey(fn)
	c := e.tx.cs.Fns[key]
	if c == nil || !c.Pure {
		e.fail("function %s used in a contract is not declared pure", key)
	}
	all := []Term{}
	if recv != nil {
		all = append(all, *recv)
	}
	all = append(all, args...)
	sig := fn.Signature
	res := e.tx.pureApp(key, c.PureHeap, sig, all, e.state(old).hv)
	if len(res) == 0 {
		e.fail("pure function %s has no result", key)
	}
	e.pureFacts(c, key, calleeParamNames(fn, c, sig), all, res, fn.Pkg, old)
	return res[0]
}

var boundVarRe = regexp.MustCompile(`_q[0-9]+\b`)

// pureFacts: a pure function's postconditions hold for every application of it, also the ones written in contracts.
// They are added as assumptions for ground applications (arguments without quantifier-bound variables).
func (e *SpecEnv) pureFacts(c *FnContract, key string, names []string, args []Term, res []Term, pkg *ssa.Package, old bool) {
	if len(c.Ensures) == 0 || e.inPureFacts {
		return
	}
	for _, a := range args {
		if boundVarRe.MatchString(a.S) {
			return
		}
	}
	done := "purefact:" + key + ":" + res[0].S
	if e.tx.d.seen[done] {
		return
	}
	e.tx.d.seen[done] = true
	env := &SpecEnv{tx: e.tx, vars: map[string]Term{}, locs: map[string]*Loc{}, cur: e.state(old), old: e.state(old), inPureFacts: true}
	if pkg != nil {
		env.pkg = pkg.Pkg
	} else {
		env.pkg = e.pkg
	}
	for i, n := range names {
		if i < len(args) {
			env.vars[n] = args[i]
		}
	}
	for i, r := range res {
		env.vars[fmt.Sprintf("result%d", i)] = r
	}
	if len(res) == 1 {
		env.vars["result"] = res[0]
	}
	pre := []string{}
	for _, r := range c.Requires {
		s, err := env.TrBool(r.E)
		if err != nil {
			return
		}
		pre = append(pre, s)
	}
	for _, en := range c.Ensures {
		s, err := env.TrBool(en.E)
		if err != nil {
			continue
		}
		e.tx.assume(simp(sand(pre...), s))
	}
}

func (e *SpecEnv) method(n *SMethod, old bool) Term {
	recv := e.tr(n.Recv, old)
	args := []Term{}
	for _, a := range n.Args {
		args = append(args, e.tr(a, old))
	}
	if recv.GT != nil && isTimeType(recv.GT) {
		return e.timeMethod(recv, n.Name, args)
	}
	if recv.GT == nil {
		e.fail("method %s on untyped value", n.Name)
	}
	obj, _, _ := types.LookupFieldOrMethod(recv.GT, true, e.pkg, n.Name)
	if obj == nil {
		obj, _, _ = types.LookupFieldOrMethod(recv.GT, true, nil, n.Name)
	}
	m, ok := obj.(*types.Func)
	if !ok {
		e.fail("no method %s on %s", n.Name, shortType(recv.GT))
	}
	if _, isIface := recv.GT.Underlying().(*types.Interface); isIface {
		key := ifaceKey(recv.GT, n.Name)
		c := e.tx.cs.Fns[key]
		if c == nil || !c.Pure {
			e.fail("interface method %s used in a contract is not declared pure", key)
		}
		sig := m.Type().(*types.Signature)
		all := append([]Term{recv}, args...)
		res := e.tx.pureApp(key, c.PureHeap, sig, all, e.state(old).hv)
		names := c.Params
		if len(names) == 0 {
			names = []string{"this"}
			for i := 0; i < sig.Params().Len(); i++ {
				names = append(names, sig.Params().At(i).Name())
			}
		}
		e.pureFacts(c, key, names, all, res, nil, old)
		return res[0]
	}
	fn := e.tx.prog.FuncValue(m)
	if fn == nil {
		e.fail("no SSA function for method %s", n.Name)
	}
	return e.pureCall(fn, &recv, args, old)
}

func (e *SpecEnv) timeMethod(t Term, name string, args []Term) Term {
	tt := e.tx.timeType()
	switch name {
	case "IsZero":
		return Term{S: "(= " + t.S + " 0)", Sort: "Bool"}
	case "Before":
		return Term{S: "(< " + t.S + " " + args[0].S + ")", Sort: "Bool"}
	case "After":
		return Term{S: "(> " + t.S + " " + args[0].S + ")", Sort: "Bool"}
	case "Equal":
		return Term{S: "(= " + t.S + " " + args[0].S + ")", Sort: "Bool"}
	case "Sub":
		return Term{S: "(clamp64 (- " + t.S + " " + args[0].S + "))", Sort: "Int"}
	case "Add":
		return Term{S: "(+ " + t.S + " " + args[0].S + ")", Sort: "Int", GT: tt}
	case "UnixNano":
		return Term{S: "(- " + t.S + " " + timeK + ")", Sort: "Int"}
	}
	e.fail("unsupported time method %s", name)
	return Term{}
}

// mentions reports whether expression x mentions identifier v (not rebound).
func mentions(x SExpr, v string) bool {
	ids := map[string]bool{}
	identsIn(x, ids)
	return ids[v]
}

// additiveSplit: if idx == v + rest (v occurring exactly once, positively, at an additive position), returns rest (nil if none).
func additiveSplit(idx SExpr, v string) (SExpr, bool) {
	var terms []SExpr
	var signs []bool
	var flat func(x SExpr, pos bool)
	flat = func(x SExpr, pos bool) {
		if b, ok := x.(*SBinary); ok && (b.Op == "+" || b.Op == "-") {
			flat(b.X, pos)
			if b.Op == "+" {
				flat(b.Y, pos)
			} else {
				flat(b.Y, !pos)
			}
			return
		}
		terms = append(terms, x)
		signs = append(signs, pos)
	}
	flat(idx, true)
	found := -1
	for i, t := range terms {
		if id, ok := t.(*SIdent); ok && id.Name == v {
			if found >= 0 || !signs[i] {
				return nil, false
			}
			found = i
		} else if mentions(t, v) {
			return nil, false
		}
	}
	if found < 0 {
		return nil, false
	}
	var rest SExpr
	for i, t := range terms {
		if i == found {
			continue
		}
		if rest == nil {
			if signs[i] {
				rest = t
			} else {
				rest = &SUnary{"-", t}
			}
		} else if signs[i] {
			rest = &SBinary{"+", rest, t}
		} else {
			rest = &SBinary{"-", rest, t}
		}
	}
	return rest, true
}

// absIndexCandidate finds the first slice read S[v + rest] in body whose base S does not mention v.
func absIndexCandidate(body SExpr, v string) (base SExpr, rest SExpr, ok bool) {
	var walk func(x SExpr) bool
	walk = func(x SExpr) bool {
		switch n := x.(type) {
		case *SIndex:
			if !mentions(n.X, v) {
				if r, good := additiveSplit(n.I, v); good {
					base, rest, ok = n.X, r, true
					return true
				}
			}
			return walk(n.X) || walk(n.I)
		case *SUnary:
			return walk(n.X)
		case *SBinary:
			return walk(n.X) || walk(n.Y)
		case *SCond:
			return walk(n.C) || walk(n.A) || walk(n.B)
		case *SCall:
			for _, a := range n.Args {
				if walk(a) {
					return true
				}
			}
		case *SMethod:
			if walk(n.Recv) {
				return true
			}
			for _, a := range n.Args {
				if walk(a) {
					return true
				}
			}
		case *SSlice:
			return walk(n.X)
		case *SField:
			return walk(n.X)
		case *SOld:
			return walk(n.X)
		case *SQuant:
			if n.Var == v {
				return false
			}
			return walk(n.Body)
		case *SLet:
			return walk(n.Val) || walk(n.Body)
		}
		return false
	}
	walk(body)
	return
}
