package main

// Second encoding of nonlinear arithmetic ("mul-as-UF"): every product/quotient by a symbolic multiplier Y
// (a parameter such as resolution or width) is replaced by uninterpreted functions mulby_Y / divby_Y constrained by
// true facts about multiplication (zero, unit, strict monotonicity, Euclidean division, pairwise additivity of the
// ground products that occur). Real multiplication is a model of these facts, so the abstraction is sound:
// `unsat` of the abstract VC is a proof; `sat` is ignored (may be spurious).

import (
	"fmt"
	"sort"
	"strings"
)

type sx struct {
	atom string
	list []*sx
}

func (s *sx) isAtom() bool { return s.list == nil && s.atom != "" }

func (s *sx) String() string {
	if s.list == nil {
		return s.atom
	}
	parts := make([]string, len(s.list))
	for i, c := range s.list {
		parts[i] = c.String()
	}
	return "(" + strings.Join(parts, " ") + ")"
}

func parseSexprs(src string) []*sx {
	var out []*sx
	i := 0
	var parse func() *sx
	skip := func() {
		for i < len(src) {
			c := src[i]
			if c == ';' {
				for i < len(src) && src[i] != '\n' {
					i++
				}
			} else if c == ' ' || c == '\n' || c == '\t' || c == '\r' {
				i++
			} else {
				break
			}
		}
	}
	parse = func() *sx {
		skip()
		if i >= len(src) {
			return nil
		}
		if src[i] == '(' {
			i++
			n := &sx{list: []*sx{}}
			for {
				skip()
				if i >= len(src) {
					return n
				}
				if src[i] == ')' {
					i++
					return n
				}
				n.list = append(n.list, parse())
			}
		}
		if src[i] == '|' {
			j := i + 1
			for j < len(src) && src[j] != '|' {
				j++
			}
			a := src[i : j+1]
			i = j + 1
			return &sx{atom: a}
		}
		if src[i] == '"' {
			j := i + 1
			for j < len(src) && src[j] != '"' {
				j++
			}
			a := src[i : j+1]
			i = j + 1
			return &sx{atom: a}
		}
		j := i
		for j < len(src) && !strings.ContainsRune(" \n\t\r()", rune(src[j])) {
			j++
		}
		a := src[i:j]
		i = j
		return &sx{atom: a}
	}
	for {
		skip()
		if i >= len(src) {
			break
		}
		n := parse()
		if n == nil {
			break
		}
		out = append(out, n)
	}
	return out
}

func isNumeral(s *sx) bool {
	if !s.isAtom() {
		// (- 5)
		if len(s.list) == 2 && s.list[0].atom == "-" && s.list[1].isAtom() {
			return isNumeral(s.list[1])
		}
		return false
	}
	for _, c := range s.atom {
		if c < '0' || c > '9' {
			return false
		}
	}
	return s.atom != ""
}

// multiplier atoms: declared constants that stand for parameters / lets / captured values
func isMultiplierAtom(s *sx) bool {
	if !s.isAtom() {
		return false
	}
	a := s.atom
	return strings.HasPrefix(a, "p_") || strings.HasPrefix(a, "let_") || strings.HasPrefix(a, "fv") || strings.HasPrefix(a, "lv_")
}

func atomRank(a string) int {
	switch {
	case strings.HasPrefix(a, "p_"):
		return 0
	case strings.HasPrefix(a, "let_"):
		return 1
	case strings.HasPrefix(a, "fv"), strings.HasPrefix(a, "lv_"):
		return 2
	}
	return 3
}

func isLinearDef(t *sx) bool {
	if t.isAtom() || len(t.list) < 2 {
		return false
	}
	switch t.list[0].atom {
	case "+", "-":
		return true
	case "*":
		return len(t.list) == 3 && (isNumeral(t.list[1]) || isNumeral(t.list[2]))
	}
	return false
}

// buildCanon collects unconditional definitions (= atom term) and merges atoms with identical definitions.
func (r *mulRewriter) buildCanon(forms []*sx, declared map[string]bool) {
	parent := map[string]string{}
	var find func(string) string
	find = func(a string) string {
		if p, ok := parent[a]; ok && p != a {
			root := find(p)
			parent[a] = root
			return root
		}
		return a
	}
	union := func(a, b string) {
		ra, rb := find(a), find(b)
		if ra == rb {
			return
		}
		// keep the better-ranked / shorter name as root
		if atomRank(rb) < atomRank(ra) || (atomRank(rb) == atomRank(ra) && (len(rb) < len(ra) || (len(rb) == len(ra) && rb < ra))) {
			ra, rb = rb, ra
		}
		parent[rb] = ra
	}
	byDef := map[string]string{}
	for _, f := range forms {
		if len(f.list) != 2 || f.list[0].atom != "assert" {
			continue
		}
		eq := f.list[1]
		if len(eq.list) == 3 && eq.list[0].atom == "=" && !eq.list[1].isAtom() && len(eq.list[1].list) > 0 && strings.HasPrefix(eq.list[1].list[0].atom, "pf_") {
			// unconditional value of a pure-function application, e.g. (= (pf_time_Add t u) (+ t u))
			if _, dup := r.termDefs[eq.list[1].String()]; !dup {
				r.termDefs[eq.list[1].String()] = eq.list[2]
			}
			continue
		}
		if len(eq.list) != 3 || eq.list[0].atom != "=" || !eq.list[1].isAtom() || !declared[eq.list[1].atom] {
			continue
		}
		x, t := eq.list[1].atom, eq.list[2]
		if t.isAtom() {
			if declared[t.atom] {
				union(x, t.atom)
			}
			continue
		}
		if _, dup := r.defs[x]; !dup {
			r.defs[x] = t
		}
		k := t.String()
		if y, ok := byDef[k]; ok {
			union(x, y)
		} else {
			byDef[k] = x
		}
	}
	for a := range parent {
		r.canon[a] = find(a)
	}
	// definitions follow their class representative
	for a, d := range r.defs {
		if rep := find(a); rep != a {
			if _, ok := r.defs[rep]; !ok {
				r.defs[rep] = d
			}
		}
	}
}

func (r *mulRewriter) subst(s *sx) *sx {
	if s.isAtom() {
		if c, ok := r.canon[s.atom]; ok && c != s.atom && r.bound[s.atom] == 0 {
			return &sx{atom: c}
		}
		return s
	}
	out := &sx{list: make([]*sx, len(s.list))}
	for i, c := range s.list {
		out.list[i] = r.subst(c)
	}
	return out
}

type mulRewriter struct {
	canon    map[string]string // atom -> representative atom (unconditional equalities)
	defs     map[string]*sx    // atom -> unconditional defining term
	termDefs map[string]*sx    // pure-function application (as text) -> unconditional value
	mults    map[string]bool
	bound    map[string]int             // bound variable names in scope
	ground   map[string]map[string]bool // multiplier -> set of ground argument strings of mulby
}

func mulName(y string) string { return "mulby_" + y }
func divName(y string) string { return "divby_" + y }

func app(f string, args ...*sx) *sx {
	l := []*sx{{atom: f}}
	l = append(l, args...)
	return &sx{list: l}
}

func (r *mulRewriter) isGround(s *sx) bool {
	if s.isAtom() {
		return r.bound[s.atom] == 0
	}
	for _, c := range s.list {
		if !r.isGround(c) {
			return false
		}
	}
	return true
}

func (r *mulRewriter) noteMul(y string, arg *sx) {
	if !r.isGround(arg) {
		return
	}
	if r.ground[y] == nil {
		r.ground[y] = map[string]bool{}
	}
	r.ground[y][arg.String()] = true
}

// mulBy builds mulby_Y(x), distributing over syntactic sums/differences/negation and numeral factors.
func (r *mulRewriter) mulBy(y string, x *sx) *sx {
	return r.mulByDepth(y, x, 0)
}

func (r *mulRewriter) mulByDepth(y string, x *sx, depth int) *sx {
	r.mults[y] = true
	if isNumeral(x) {
		return app("*", x, &sx{atom: y})
	}
	if x.isAtom() && depth < 4 && r.bound[x.atom] == 0 {
		if d, ok := r.defs[x.atom]; ok && isLinearDef(d) {
			return r.mulByDepth(y, r.subst(d), depth+1)
		}
	}
	if !x.isAtom() && len(x.list) >= 2 {
		switch x.list[0].atom {
		case "+":
			args := []*sx{}
			for _, a := range x.list[1:] {
				args = append(args, r.mulByDepth(y, a, depth))
			}
			return app("+", args...)
		case "-":
			if len(x.list) == 2 {
				return app("-", r.mulByDepth(y, x.list[1], depth))
			}
			args := []*sx{}
			for _, a := range x.list[1:] {
				args = append(args, r.mulByDepth(y, a, depth))
			}
			return app("-", args...)
		case "*":
			// (c * t) * Y with numeral c
			if len(x.list) == 3 && isNumeral(x.list[1]) {
				return app("*", x.list[1], r.mulByDepth(y, x.list[2], depth))
			}
			if len(x.list) == 3 && isNumeral(x.list[2]) {
				return app("*", x.list[2], r.mulByDepth(y, x.list[1], depth))
			}
		}
	}
	r.noteMul(y, x)
	return app(mulName(y), x)
}

func (r *mulRewriter) divBy(y string, x *sx) *sx {
	r.mults[y] = true
	d := app(divName(y), x)
	r.noteMul(y, d)
	return d
}

func (r *mulRewriter) rewrite(s *sx) *sx {
	if s.isAtom() || len(s.list) == 0 {
		return s
	}
	head := s.list[0].atom
	if head == "forall" || head == "exists" {
		// (forall ((x Int) ...) body)
		names := []string{}
		if len(s.list) >= 3 {
			for _, b := range s.list[1].list {
				if len(b.list) == 2 {
					names = append(names, b.list[0].atom)
				}
			}
		}
		for _, n := range names {
			r.bound[n]++
		}
		out := &sx{list: []*sx{s.list[0], s.list[1]}}
		for _, c := range s.list[2:] {
			out.list = append(out.list, r.rewrite(c))
		}
		for _, n := range names {
			r.bound[n]--
		}
		return out
	}
	if head == "!" {
		// (! body :pattern (...)): rewrite body and patterns alike
		out := &sx{list: []*sx{s.list[0]}}
		for _, c := range s.list[1:] {
			out.list = append(out.list, r.rewrite(c))
		}
		return out
	}
	// rewrite children first
	args := make([]*sx, 0, len(s.list)-1)
	for _, c := range s.list[1:] {
		args = append(args, r.rewrite(c))
	}
	switch head {
	case "*":
		if len(args) == 2 {
			a, b := args[0], args[1]
			if isNumeral(a) || isNumeral(b) {
				break
			}
			switch {
			case isMultiplierAtom(b) && !isMultiplierAtom(a):
				return r.mulBy(b.atom, a)
			case isMultiplierAtom(a) && !isMultiplierAtom(b):
				return r.mulBy(a.atom, b)
			case isMultiplierAtom(a) && isMultiplierAtom(b):
				if a.atom < b.atom {
					return r.mulBy(a.atom, b)
				}
				return r.mulBy(b.atom, a)
			}
		}
	case "div":
		if len(args) == 2 && isMultiplierAtom(args[1]) {
			return r.divBy(args[1].atom, args[0])
		}
	case "mod":
		if len(args) == 2 && isMultiplierAtom(args[1]) {
			y := args[1].atom
			return app("-", args[0], r.mulBy(y, r.divBy(y, args[0])))
		}
	case "tdiv":
		if len(args) == 2 && isMultiplierAtom(args[1]) {
			y := args[1].atom
			x := args[0]
			return app("ite", app(">=", x, &sx{atom: "0"}), r.divBy(y, x), app("-", r.divBy(y, app("-", x))))
		}
	case "tmod":
		if len(args) == 2 && isMultiplierAtom(args[1]) {
			y := args[1].atom
			x := args[0]
			q := app("ite", app(">=", x, &sx{atom: "0"}), r.divBy(y, x), app("-", r.divBy(y, app("-", x))))
			return app("-", x, r.mulBy(y, q))
		}
	case "fdiv":
		if len(args) == 2 && isMultiplierAtom(args[1]) {
			return r.divBy(args[1].atom, args[0])
		}
	}
	out := &sx{list: append([]*sx{s.list[0]}, args...)}
	return out
}

// mulUFVariant rewrites a complete VC text. Returns "" when there is nothing to abstract.
func mulUFVariant(vc string) string { return mulVariant(vc, false) }

// mulNormVariant: mul-as-UF plus normalisation of arithmetic atoms (linnorm.go).
func mulNormVariant(vc string) string { return mulVariant(vc, true) }

func mulVariant(vc string, normalize bool) string {
	forms := parseSexprs(vc)
	r := &mulRewriter{termDefs: map[string]*sx{}, canon: map[string]string{}, defs: map[string]*sx{}, mults: map[string]bool{}, bound: map[string]int{}, ground: map[string]map[string]bool{}}
	declared := map[string]bool{}
	for _, f := range forms {
		if len(f.list) == 3 && f.list[0].atom == "declare-const" {
			declared[f.list[1].atom] = true
		}
	}
	r.buildCanon(forms, declared)
	var head, body []string
	nz := &linNormalizer{r: r, lemmas: map[string]bool{}}
	for _, f := range forms {
		if len(f.list) > 0 {
			switch f.list[0].atom {
			case "assert":
				g := r.rewrite(r.subst(f))
				if normalize {
					g = nz.normalize(g)
				}
				body = append(body, g.String())
				continue
			case "check-sat", "get-model":
				continue
			case "define-fun":
				// definitions may contain products of their own parameters (be64 etc. are linear): keep
			}
		}
		head = append(head, f.String())
	}
	if len(r.mults) == 0 {
		return ""
	}
	var b strings.Builder
	for _, h := range head {
		b.WriteString(h + "\n")
	}
	ys := []string{}
	for y := range r.mults {
		ys = append(ys, y)
	}
	sort.Strings(ys)
	for _, y := range ys {
		m, d := mulName(y), divName(y)
		fmt.Fprintf(&b, "(declare-fun %s (Int) Int)\n(declare-fun %s (Int) Int)\n", m, d)
		fmt.Fprintf(&b, "(assert (= (%s 0) 0))\n(assert (= (%s 1) %s))\n", m, m, y)
		fmt.Fprintf(&b, "(assert (forall ((a Int) (c Int)) (! (=> (and (> %s 0) (< a c)) (<= (+ (%s a) %s) (%s c))) :pattern ((%s a) (%s c)))))\n", y, m, y, m, m, m)
		fmt.Fprintf(&b, "(assert (forall ((a Int)) (! (=> (> %s 0) (and (<= (%s (%s a)) a) (< a (+ (%s (%s a)) %s)))) :pattern ((%s a)))))\n", y, m, d, m, d, y, d)
		if normalize {
			continue
		}
		// pairwise additivity of the ground products that occur (depth 1)
		terms := []string{}
		for t := range r.ground[y] {
			terms = append(terms, t)
		}
		sort.Strings(terms)
		if len(terms) > 40 {
			terms = terms[:40]
		}
		for i := 0; i < len(terms); i++ {
			for j := i + 1; j < len(terms); j++ {
				a, c := terms[i], terms[j]
				fmt.Fprintf(&b, "(assert (= (%s (+ %s %s)) (+ (%s %s) (%s %s))))\n", m, a, c, m, a, m, c)
				fmt.Fprintf(&b, "(assert (= (%s (- %s %s)) (- (%s %s) (%s %s))))\n", m, a, c, m, a, m, c)
			}
			fmt.Fprintf(&b, "(assert (= (%s (+ %s 1)) (+ (%s %s) %s)))\n", m, terms[i], m, terms[i], y)
			fmt.Fprintf(&b, "(assert (= (%s (- %s 1)) (- (%s %s) %s)))\n", m, terms[i], m, terms[i], y)
		}
	}
	if normalize {
		ls := []string{}
		for l := range nz.lemmas {
			ls = append(ls, l)
		}
		sort.Strings(ls)
		for _, l := range ls {
			b.WriteString("(assert " + l + ")\n")
		}
	}
	for _, a := range body {
		b.WriteString(a + "\n")
	}
	b.WriteString("(check-sat)\n")
	return b.String()
}
